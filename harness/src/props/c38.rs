//! C38 Annotations blame the commit that introduced each line.
//!
//! A model history (DAG with merges) of edits to one file is written into a test
//! repo; the file is annotated from several start commits under several
//! domains, and every reported origin is checked against a *validity predicate*
//! (several blames can be right):
//!
//! * the annotated text is the model's content at the start commit and the
//!   per-line pieces are exactly its lines;
//! * `Ok(origin)`: the origin commit is an ancestor-or-self of the start (BFS in
//!   the model), lies in the searched set `S = {start} ∪ (domain ∩ ::start ∩
//!   files(path))`, its version has exactly that line at `origin.line_number`,
//!   and the line is not carried over from any parent of the origin in the
//!   searched graph: for no nearest searched ancestor `E` (and for no parent
//!   ancestry leaving the searched set) does jj's own
//!   `ContentDiff::by_line([origin text, E text])` place that line in a
//!   Matching hunk;
//! * `Err(origin)`: the named commit is an ancestor of the start, has that line at
//!   that number, and neither it nor any of its ancestors is in the searched set
//!   (the search really stopped there); with domain = all no `Err` can occur.

use std::collections::BTreeMap;
use std::collections::BTreeSet;
use std::sync::Arc;

use futures::TryStreamExt as _;
use jj_lib::annotate::FileAnnotator;
use jj_lib::commit::Commit;
use jj_lib::object_id::ObjectId as _;
use jj_lib::diff::ContentDiff;
use jj_lib::diff::DiffHunkKind;
use jj_lib::fileset::FilesetExpression;
use jj_lib::repo::Repo;
use jj_lib::revset::ResolvedRevsetExpression;
use jj_lib::revset::RevsetExpression;
use jj_lib::revset::RevsetFilterPredicate;
use pollster::FutureExt as _;
use proptest::prelude::*;
use serde::Deserialize;
use serde::Serialize;

use crate::engine::runner::CheckResult;
use crate::engine::runner::Outcome;
use crate::engine::runner::Report;
use crate::engine::runner::Violation;
use crate::engine::runner::pick;
use crate::ensure;
use crate::gens::content::Bytes;
use crate::gens::content::line_body;
use crate::model::dag::BuildOpts;
use crate::model::dag::Dag;
use crate::model::dag::DagSpec;
use crate::model::dag::NodeSpec;
use crate::model::base_repo::with_base_repo;
use crate::model::dag::write_nodes;
use crate::model::dag::dag_spec;
use crate::model::dag::index_of;
use crate::model::tree::Entry;
use crate::model::tree::ModelTree;
use crate::model::tree::repo_path;
use crate::model::tree::write_tree;

const FILE: &str = "file";
const OTHER: &str = "other";

/// Known finding F5: `process_commits` counts `num_unresolved_roots` once per
/// *missing edge* instead of once per unresolved commit, so the early-exit test
/// `commit_source_map.len() == num_unresolved_roots` can fire while a searched
/// commit is still pending; its lines keep the initial placeholder
/// `Err(start commit, own line number)`.
pub const F5_SIGNATURE: &str = "C38-F5-early-stop-double-counted-root";

#[derive(Debug, Clone, Serialize, Deserialize)]
pub enum LineSpec {
    /// A line that occurs nowhere else in the history.
    Fresh,
    /// A line from a small alphabet (duplicates within and across versions).
    Word(String),
}

#[derive(Debug, Clone, Serialize, Deserialize)]
pub enum Op {
    Insert { at: u16, lines: Vec<LineSpec> },
    Delete { at: u16, count: u8 },
    Replace { at: u16, line: LineSpec },
    Move { from: u16, to: u16 },
    Duplicate { from: u16, to: u16 },
    /// Removes the file; later inserts (here or in descendants) re-add it.
    DeleteFile,
}

/// How a merge commit combines its parents' versions before its own edits.
#[derive(Debug, Clone, Copy, Serialize, Deserialize)]
pub enum MergeMode {
    First,
    Second,
    /// First half of the first parent, second half of the second parent.
    HeadTail,
    /// First parent's lines, then the second parent's lines not among them.
    Union,
    /// Second parent's unknown lines woven into the first parent's at the
    /// position after their nearest preceding common line.
    Weave,
}

#[derive(Debug, Clone, Serialize, Deserialize)]
pub struct NodeEdit {
    pub merge: MergeMode,
    pub ops: Vec<Op>,
    /// The last line has no terminating newline.
    pub no_final_newline: bool,
    /// The commit also changes an unrelated file.
    pub touch_other: bool,
}

#[derive(Debug, Clone, Serialize, Deserialize)]
pub enum DomainSpec {
    All,
    /// `x::` with `x` drawn from the ancestors of the start.
    DescendantsOf { x: u16 },
    /// The start plus commits drawn from its ancestors.
    Subset { members: Vec<u16> },
    /// `~::x` with `x` drawn from the commits that are not descendants of the start.
    NotAncestorsOf { x: u16 },
}

#[derive(Debug, Clone, Serialize, Deserialize)]
pub struct Query {
    pub start: u16,
    pub domain: DomainSpec,
}

#[derive(Debug, Clone, Serialize, Deserialize)]
pub struct Case {
    pub dag: DagSpec,
    /// Edit script of node `i` is `edits[i - 1]` (missing = no-op).
    pub edits: Vec<NodeEdit>,
    pub queries: Vec<Query>,
}

// --------------------------------------------------------------- file model

#[derive(Debug, Clone, PartialEq, Eq)]
struct FileState {
    lines: Vec<String>,
    final_newline: bool,
}

impl FileState {
    fn bytes(&self) -> Vec<u8> {
        let mut out = vec![];
        for (i, l) in self.lines.iter().enumerate() {
            out.extend_from_slice(l.as_bytes());
            if i + 1 < self.lines.len() || self.final_newline {
                out.push(b'\n');
            }
        }
        out
    }
}

fn split_lines(text: &[u8]) -> Vec<&[u8]> {
    text.split_inclusive(|b| *b == b'\n').collect()
}

fn line_text(spec: &LineSpec, node: usize, counter: &mut usize) -> String {
    match spec {
        LineSpec::Fresh => {
            *counter += 1;
            format!("n{node}.{counter}")
        }
        LineSpec::Word(w) => w.clone(),
    }
}

fn combine(mode: MergeMode, p1: &[String], p2: &[String]) -> Vec<String> {
    match mode {
        MergeMode::First => p1.to_vec(),
        MergeMode::Second => p2.to_vec(),
        MergeMode::HeadTail => {
            let mut out = p1[..p1.len() / 2].to_vec();
            out.extend_from_slice(&p2[p2.len() / 2..]);
            out
        }
        MergeMode::Union => {
            let mut out = p1.to_vec();
            out.extend(p2.iter().filter(|l| !p1.contains(l)).cloned());
            out
        }
        MergeMode::Weave => {
            let mut out = p1.to_vec();
            let mut pos = 0;
            for l in p2 {
                if let Some(k) = out[pos..].iter().position(|x| x == l) {
                    pos += k + 1;
                } else {
                    out.insert(pos, l.clone());
                    pos += 1;
                }
            }
            out
        }
    }
}

/// Model content of every node (index 0 = root: no file).
fn contents(dag: &Dag, edits: &[NodeEdit]) -> Vec<Option<FileState>> {
    let mut states: Vec<Option<FileState>> = vec![None];
    let noop = NodeEdit {
        merge: MergeMode::First,
        ops: vec![],
        no_final_newline: false,
        touch_other: false,
    };
    for i in 1..dag.len() {
        let edit = edits.get(i - 1).unwrap_or(&noop);
        let parents = &dag.parents[i];
        let mut state: Option<FileState> = if parents.len() == 1 {
            states[parents[0]].clone()
        } else {
            let p1 = states[parents[0]].clone();
            let p2 = states[parents[1]].clone();
            match (p1, p2) {
                (None, None) => None,
                (a, b) => {
                    let newline = a.as_ref().or(b.as_ref()).unwrap().final_newline;
                    let la = a.map(|s| s.lines).unwrap_or_default();
                    let lb = b.map(|s| s.lines).unwrap_or_default();
                    Some(FileState {
                        lines: combine(edit.merge, &la, &lb),
                        final_newline: newline,
                    })
                }
            }
        };
        let mut counter = 0;
        for op in &edit.ops {
            match op {
                Op::DeleteFile => state = None,
                Op::Insert { at, lines } => {
                    let st = state.get_or_insert(FileState {
                        lines: vec![],
                        final_newline: true,
                    });
                    let at = pick(*at, st.lines.len() + 1);
                    let new: Vec<String> =
                        lines.iter().map(|l| line_text(l, i, &mut counter)).collect();
                    st.lines.splice(at..at, new);
                }
                Op::Delete { at, count } => {
                    if let Some(st) = &mut state
                        && !st.lines.is_empty()
                    {
                        let at = pick(*at, st.lines.len());
                        let end = (at + *count as usize).min(st.lines.len());
                        st.lines.drain(at..end);
                    }
                }
                Op::Replace { at, line } => {
                    if let Some(st) = &mut state
                        && !st.lines.is_empty()
                    {
                        let at = pick(*at, st.lines.len());
                        st.lines[at] = line_text(line, i, &mut counter);
                    }
                }
                Op::Move { from, to } => {
                    if let Some(st) = &mut state
                        && !st.lines.is_empty()
                    {
                        let from = pick(*from, st.lines.len());
                        let l = st.lines.remove(from);
                        let to = pick(*to, st.lines.len() + 1);
                        st.lines.insert(to, l);
                    }
                }
                Op::Duplicate { from, to } => {
                    if let Some(st) = &mut state
                        && !st.lines.is_empty()
                    {
                        let from = pick(*from, st.lines.len());
                        let l = st.lines[from].clone();
                        let to = pick(*to, st.lines.len() + 1);
                        st.lines.insert(to, l);
                    }
                }
            }
        }
        // A commit without edits keeps its (combined) parents' version untouched.
        if let Some(st) = &mut state
            && !edit.ops.is_empty()
        {
            st.final_newline = !edit.no_final_newline;
        }
        states.push(state);
    }
    states
}

/// 0-based numbers of the lines of `current` that jj's line diff places in a
/// Matching hunk against `parent` (same argument order as the annotator).
fn carried_lines(current: &[u8], parent: &[u8]) -> BTreeSet<usize> {
    let diff = ContentDiff::by_line([current, parent]);
    let mut out = BTreeSet::new();
    let mut line = 0;
    for hunk in diff.hunks() {
        let n = split_lines(hunk.contents[0]).len();
        if hunk.kind == DiffHunkKind::Matching {
            out.extend(line..line + n);
        }
        line += n;
    }
    out
}

// --------------------------------------------------------- searched graph

struct Searched<'a> {
    dag: &'a Dag,
    set: &'a BTreeSet<usize>,
}

impl Searched<'_> {
    fn reaches_set(&self, c: usize) -> bool {
        self.dag.ancestors([c]).iter().any(|a| self.set.contains(a))
    }

    /// Nearest searched ancestors of `c` (through commits outside the set) and
    /// the commits where a parent ancestry leaves the searched set for good.
    fn edges(&self, c: usize) -> (BTreeSet<usize>, BTreeSet<usize>) {
        let mut near = BTreeSet::new();
        let mut missing = BTreeSet::new();
        let mut seen = BTreeSet::new();
        let mut stack: Vec<usize> = self.dag.parents[c].clone();
        while let Some(p) = stack.pop() {
            if !seen.insert(p) {
                continue;
            }
            if self.set.contains(&p) {
                near.insert(p);
            } else if !self.reaches_set(p) {
                missing.insert(p);
            } else {
                stack.extend(self.dag.parents[p].iter().copied());
            }
        }
        // Only the heads are guaranteed to be compared (jj drops transitive edges).
        let near = self.dag.heads(&near);
        (near, missing)
    }

    /// Number of parent links through which the walk from `c` leaves the searched
    /// set at each missing target (jj does not always merge them into one edge).
    fn missing_links(&self, c: usize, out: &mut BTreeMap<usize, usize>) {
        let mut seen = BTreeSet::new();
        let mut stack = vec![c];
        while let Some(q) = stack.pop() {
            for &p in &self.dag.parents[q] {
                if self.set.contains(&p) {
                    continue;
                }
                if !self.reaches_set(p) {
                    *out.entry(p).or_default() += 1;
                } else if seen.insert(p) {
                    stack.push(p);
                }
            }
        }
    }
}

struct QueryStats {
    /// A line matched the F5 signature (everything else about the query held).
    known: Option<String>,
    origins: usize,
    merge_on_path: bool,
    err_lines: usize,
    err_inside_domain: bool,
    merge_origin: bool,
    lines: usize,
    dup_lines: bool,
}

#[allow(clippy::too_many_arguments)]
fn check_query(
    repo: &dyn Repo,
    commits: &[Commit],
    dag: &Dag,
    texts: &[Vec<u8>],
    changes_file: &BTreeSet<usize>,
    query: &Query,
    starts: &[usize],
    what: &str,
) -> Result<QueryStats, Violation> {
    let n = dag.len();
    let start = starts[pick(query.start, starts.len())];
    let anc_start = dag.ancestors([start]);
    let id = |i: usize| commits[i].id().clone();
    let (domain, domain_expr, domain_desc): (BTreeSet<usize>, Arc<ResolvedRevsetExpression>, String) =
        match &query.domain {
            DomainSpec::All => ((0..n).collect(), RevsetExpression::all(), "all()".into()),
            DomainSpec::DescendantsOf { x } => {
                let xs: Vec<usize> = anc_start.iter().copied().collect();
                let x = xs[pick(*x, xs.len())];
                (
                    dag.descendants([x]),
                    RevsetExpression::commit(id(x)).descendants(),
                    format!("{x}::"),
                )
            }
            DomainSpec::Subset { members } => {
                let xs: Vec<usize> = anc_start.iter().copied().collect();
                let mut set: BTreeSet<usize> =
                    members.iter().map(|m| xs[pick(*m, xs.len())]).collect();
                set.insert(start);
                let ids = set.iter().map(|&i| id(i)).collect();
                let desc = format!("{set:?}");
                (set, RevsetExpression::commits(ids), desc)
            }
            DomainSpec::NotAncestorsOf { x } => {
                let desc_start = dag.descendants([start]);
                let xs: Vec<usize> = (0..n).filter(|v| !desc_start.contains(v)).collect();
                let x = xs[pick(*x, xs.len())];
                let anc_x = dag.ancestors([x]);
                (
                    (0..n).filter(|v| !anc_x.contains(v)).collect(),
                    RevsetExpression::commit(id(x)).ancestors().negated(),
                    format!("~::{x}"),
                )
            }
        };
    let what = format!("{what}; annotate from {start} within {domain_desc}");
    let mut searched: BTreeSet<usize> = anc_start
        .iter()
        .copied()
        .filter(|c| domain.contains(c) && changes_file.contains(c))
        .collect();
    searched.insert(start);
    let graph = Searched {
        dag,
        set: &searched,
    };

    let path = repo_path(FILE);
    let mut annotator = FileAnnotator::from_commit(&commits[start], &path)
        .block_on()
        .map_err(|e| Violation::new(format!("{what}: from_commit failed: {e}")))?;
    annotator
        .compute(repo, &domain_expr)
        .block_on()
        .map_err(|e| Violation::new(format!("{what}: compute failed: {e}")))?;
    let annotation = annotator.to_annotation();

    let text = &texts[start];
    ensure!(
        annotation.text().as_ref() as &[u8] == text.as_slice(),
        "{what}: annotated text {:?} differs from the file content {:?}",
        annotation.text(),
        bstr::BStr::new(text)
    );
    let model_lines = split_lines(text);
    let got: Vec<_> = annotation.line_origins().collect();
    ensure!(
        got.len() == model_lines.len(),
        "{what}: {} annotated lines for a file of {} lines",
        got.len(),
        model_lines.len()
    );
    let mut origin_commits = BTreeSet::new();
    let mut err_lines = 0;
    let mut err_inside_domain = false;
    let mut merge_origin = false;
    let mut edge_cache: BTreeMap<usize, Vec<(usize, BTreeSet<usize>)>> = BTreeMap::new();
    let mut known: Option<String> = None;
    // F5 precondition, decided in the model: some commit outside the searched set
    // that has the file is reached by two or more missing edges (from different
    // searched commits, or from one through different parent links).
    let double_counted_root = || {
        let mut links: BTreeMap<usize, usize> = BTreeMap::new();
        for &c in &searched {
            graph.missing_links(c, &mut links);
        }
        links
            .into_iter()
            .find(|(t, n)| *n >= 2 && !texts[*t].is_empty())
            .map(|(t, _)| t)
    };
    for (i, (origin, line)) in got.iter().enumerate() {
        let line: &[u8] = line.as_ref();
        ensure!(
            line == model_lines[i],
            "{what}: annotated line {i} is {:?}, the file has {:?}",
            bstr::BStr::new(line),
            bstr::BStr::new(model_lines[i])
        );
        let (o, is_ok) = match origin {
            Ok(o) => (*o, true),
            Err(o) => (*o, false),
        };
        let Some(c) = index_of(commits, &o.commit_id) else {
            return Err(Violation::new(format!(
                "{what}: line {i} attributed to unknown commit {}",
                o.commit_id.hex()
            )));
        };
        if !is_ok
            && c == start
            && o.line_number == i
            && !matches!(query.domain, DomainSpec::All)
            && let Some(t) = double_counted_root()
        {
            // Signature predicate of F5: the untouched placeholder is reported and
            // the double-counting precondition holds.
            known.get_or_insert_with(|| {
                format!(
                    "{what}: line {i} {:?} is left as the initial placeholder Err(start commit \
                     {start}, line {i}); commit {t} (outside the searched set {searched:?}) is the \
                     target of several missing edges, so the walk stopped early",
                    bstr::BStr::new(line)
                )
            });
            err_lines += 1;
            continue;
        }
        let tag = if is_ok { "Ok" } else { "Err" };
        let desc = format!(
            "{what}: line {i} {:?} -> {tag}(commit {c}, line {})",
            bstr::BStr::new(line),
            o.line_number
        );
        ensure!(anc_start.contains(&c), "{desc}: commit {c} is not an ancestor of the start");
        let origin_lines = split_lines(&texts[c]);
        ensure!(
            origin_lines.get(o.line_number).copied() == Some(line),
            "{desc}: commit {c} has {:?} at that line number (its content: {:?})",
            origin_lines.get(o.line_number).map(|l| bstr::BStr::new(*l)),
            bstr::BStr::new(&texts[c])
        );
        if is_ok {
            ensure!(
                searched.contains(&c),
                "{desc}: commit {c} is outside the searched set {searched:?} (domain ∩ ::start ∩ \
                 files(file), plus the start)"
            );
            origin_commits.insert(c);
            if dag.parents[c].len() >= 2 {
                merge_origin = true;
            }
            let edges = edge_cache.entry(c).or_insert_with(|| {
                let (near, missing) = graph.edges(c);
                near.into_iter()
                    .chain(missing)
                    .map(|e| (e, carried_lines(&texts[c], &texts[e])))
                    .collect()
            });
            for (e, carried) in edges.iter() {
                ensure!(
                    !carried.contains(&o.line_number),
                    "{desc}: the line is carried over from commit {e} (jj's by_line diff of {:?} \
                     against {:?} matches it), which is a parent of {c} in the searched graph \
                     {searched:?}",
                    bstr::BStr::new(&texts[c]),
                    bstr::BStr::new(&texts[*e])
                );
            }
        } else {
            err_lines += 1;
            ensure!(
                !matches!(query.domain, DomainSpec::All),
                "{desc}: unresolved line although the domain is all()"
            );
            ensure!(
                !searched.contains(&c),
                "{desc}: the search is said to have stopped at commit {c}, which is inside the \
                 searched set {searched:?}"
            );
            ensure!(
                !graph.reaches_set(c),
                "{desc}: the search is said to have stopped at commit {c}, but it has ancestors in \
                 the searched set {searched:?}"
            );
            if domain.contains(&c) {
                err_inside_domain = true;
            }
        }
    }
    let merge_on_path = anc_start
        .iter()
        .any(|&c| dag.parents[c].len() >= 2 && domain.contains(&c));
    let distinct: BTreeSet<&[u8]> = model_lines.iter().copied().collect();
    Ok(QueryStats {
        known,
        origins: origin_commits.len(),
        merge_on_path,
        err_lines,
        err_inside_domain,
        merge_origin,
        lines: model_lines.len(),
        dup_lines: distinct.len() < model_lines.len(),
    })
}

fn check(case: &Case) -> CheckResult {
    let dag = Dag::from_spec(&case.dag);
    let n = dag.len();
    if n < 2 {
        return Ok(Outcome::trivial());
    }
    let states = contents(&dag, &case.edits);
    let texts: Vec<Vec<u8>> = states
        .iter()
        .map(|s| s.as_ref().map(|s| s.bytes()).unwrap_or_default())
        .collect();
    let mut tx = with_base_repo(|base| base.start_transaction());
    let store = tx.repo().store().clone();
    let mut other_version = vec![0usize; n];
    for i in 1..n {
        let touched = case.edits.get(i - 1).is_some_and(|e| e.touch_other);
        other_version[i] = if touched { i } else { other_version[dag.parents[i][0]] };
    }
    let tree_of = |i: usize| {
        let mut tree = ModelTree::new();
        if states[i].is_some() {
            tree.insert(
                FILE.to_string(),
                Entry::File {
                    content: Bytes(texts[i].clone()),
                    exec: false,
                },
            );
        }
        if other_version[i] != 0 {
            tree.insert(
                OTHER.to_string(),
                Entry::File {
                    content: Bytes(format!("v{}\n", other_version[i]).into_bytes()),
                    exec: false,
                },
            );
        }
        write_tree(&store, &tree)
    };
    let opts = BuildOpts {
        tree_of: Some(&tree_of),
        ..BuildOpts::default()
    };
    let mut commits = vec![];
    write_nodes(tx.repo_mut(), &dag, 1..dag.len(), &mut commits, &opts);
    let repo: &dyn Repo = tx.repo();
    let what = format!(
        "parents={:?}, contents={:?}",
        dag.parents,
        texts.iter().map(|t| bstr::BString::from(t.clone())).collect::<Vec<_>>()
    );

    // Commits that change the file relative to their (auto-merged) parents, as
    // jj's `files()` predicate sees it. Trusted for merges; cross-checked against
    // the model for commits with one parent.
    let predicate = RevsetFilterPredicate::File(FilesetExpression::file_path(repo_path(FILE)));
    let ids: Vec<_> = RevsetExpression::all()
        .filtered(predicate)
        .evaluate(repo)
        .map_err(|e| Violation::new(format!("{what}: files() evaluation failed: {e}")))?
        .stream()
        .try_collect()
        .block_on()
        .map_err(|e| Violation::new(format!("{what}: files() evaluation failed: {e}")))?;
    let mut changes_file = BTreeSet::new();
    for id in &ids {
        let Some(c) = index_of(&commits, id) else {
            return Err(Violation::new(format!("{what}: files() yields unknown commit")));
        };
        changes_file.insert(c);
    }
    for i in 1..n {
        if let [p] = dag.parents[i].as_slice() {
            // Compare bytes, not edit states: different line lists can render the same bytes.
            let changed = (states[i].is_some(), &texts[i]) != (states[*p].is_some(), &texts[*p]);
            ensure!(
                changes_file.contains(&i) == changed,
                "{what}: files(file) membership of single-parent commit {i} is {} but the model says \
                 the file {}",
                changes_file.contains(&i),
                if changed { "changed" } else { "did not change" }
            );
        }
    }

    let with_file: Vec<usize> = (1..n).filter(|&i| states[i].is_some()).collect();
    let starts: Vec<usize> = if with_file.is_empty() { (1..n).collect() } else { with_file };
    let mut nontrivial = false;
    let mut out = Outcome::new(false);
    let any = |cond: bool, name: &'static str, out: &mut Outcome| {
        if cond && !out.classes.contains(&name) {
            out.classes.push(name);
        }
    };
    let mut known: Option<String> = None;
    for query in &case.queries {
        let stats = check_query(repo, &commits, &dag, &texts, &changes_file, query, &starts, &what)?;
        if let Some(msg) = &stats.known {
            known.get_or_insert_with(|| msg.clone());
        }
        if stats.origins >= 3 && stats.merge_on_path {
            nontrivial = true;
        }
        any(stats.origins >= 3, "origins>=3", &mut out);
        any(stats.origins >= 6, "origins>=6", &mut out);
        any(stats.merge_on_path, "merge-on-path", &mut out);
        any(stats.err_lines > 0, "err-lines", &mut out);
        any(stats.err_inside_domain, "err-at-unchanged-commit-inside-domain", &mut out);
        any(stats.merge_origin, "line-blamed-on-merge", &mut out);
        any(stats.lines >= 10, "lines>=10", &mut out);
        any(stats.lines == 0, "empty-or-absent-file", &mut out);
        any(stats.dup_lines, "duplicate-lines", &mut out);
        match query.domain {
            DomainSpec::All => any(true, "domain-all", &mut out),
            DomainSpec::DescendantsOf { .. } => any(true, "domain-x::", &mut out),
            DomainSpec::Subset { .. } => any(true, "domain-subset", &mut out),
            DomainSpec::NotAncestorsOf { .. } => any(true, "domain-~::x", &mut out),
        }
    }
    let deleted_somewhere = (1..n).any(|i| {
        states[i].is_none() && dag.parents[i].iter().any(|p| states[*p].is_some())
    });
    any(deleted_somewhere, "file-deleted-in-history", &mut out);
    any(
        states.iter().flatten().any(|s| !s.final_newline && !s.lines.is_empty()),
        "no-final-newline",
        &mut out,
    );
    any(
        (1..n).any(|i| dag.parents[i].len() >= 2 && !changes_file.contains(&i)),
        "merge-not-changing-file",
        &mut out,
    );
    any(
        (1..n).any(|i| dag.parents[i].len() == 1 && !changes_file.contains(&i)),
        "noop-commit",
        &mut out,
    );
    if let Some(msg) = known {
        // All other lines and queries of this case satisfied the predicate.
        return Err(Violation::known(F5_SIGNATURE, msg));
    }
    out.nontrivial = nontrivial;
    Ok(out)
}

// ---------------------------------------------------------------- generators

fn line_spec() -> impl Strategy<Value = LineSpec> {
    prop_oneof![
        6 => Just(LineSpec::Fresh),
        4 => line_body(false).prop_map(LineSpec::Word),
    ]
}

fn op() -> impl Strategy<Value = Op> {
    prop_oneof![
        8 => (any::<u16>(), prop::collection::vec(line_spec(), 1..=4))
            .prop_map(|(at, lines)| Op::Insert { at, lines }),
        4 => (any::<u16>(), 1u8..=3).prop_map(|(at, count)| Op::Delete { at, count }),
        4 => (any::<u16>(), line_spec()).prop_map(|(at, line)| Op::Replace { at, line }),
        2 => (any::<u16>(), any::<u16>()).prop_map(|(from, to)| Op::Move { from, to }),
        2 => (any::<u16>(), any::<u16>()).prop_map(|(from, to)| Op::Duplicate { from, to }),
        1 => Just(Op::DeleteFile),
    ]
}

fn node_edit() -> impl Strategy<Value = NodeEdit> {
    (
        prop_oneof![
            2 => Just(MergeMode::First),
            1 => Just(MergeMode::Second),
            2 => Just(MergeMode::HeadTail),
            2 => Just(MergeMode::Union),
            4 => Just(MergeMode::Weave),
        ],
        prop_oneof![
            2 => prop::collection::vec(op(), 0),
            8 => prop::collection::vec(op(), 1..=3),
        ],
        prop::bool::weighted(0.08),
        prop::bool::weighted(0.25),
    )
        .prop_map(|(merge, ops, no_final_newline, touch_other)| NodeEdit {
            merge,
            ops,
            no_final_newline,
            touch_other,
        })
}

fn domain() -> impl Strategy<Value = DomainSpec> {
    prop_oneof![
        3 => Just(DomainSpec::All),
        3 => any::<u16>().prop_map(|x| DomainSpec::DescendantsOf { x }),
        3 => prop::collection::vec(any::<u16>(), 0..=10).prop_map(|members| DomainSpec::Subset { members }),
        2 => any::<u16>().prop_map(|x| DomainSpec::NotAncestorsOf { x }),
    ]
}

fn query() -> impl Strategy<Value = Query> {
    (
        prop_oneof![2 => 52000u16..=u16::MAX, 1 => any::<u16>()],
        domain(),
    )
        .prop_map(|(start, domain)| Query { start, domain })
}

/// History-shaped DAG: most commits sit on one of a few recent branches (parent
/// selectors biased towards the newest commits), ~25 % are merges whose second
/// parent is drawn from anywhere, a few start a new root branch.
fn history_dag(n: usize) -> impl Strategy<Value = DagSpec> {
    let recent = || prop_oneof![6 => 45000u16..=u16::MAX, 1 => any::<u16>()];
    let node = (
        prop::bool::weighted(0.45),
        prop::bool::weighted(0.25),
        recent(),
        prop_oneof![1 => recent(), 1 => any::<u16>()],
    )
        .prop_map(|(linear, merge, a, b)| {
            let first = if linear { u16::MAX } else { a };
            NodeSpec {
                parents: if merge { vec![first, b] } else { vec![first] },
                aux: 0,
            }
        });
    prop::collection::vec(node, n).prop_map(|nodes| DagSpec { nodes })
}

fn case(max_nodes: usize) -> impl Strategy<Value = Case> {
    (2..=max_nodes).prop_flat_map(|n| {
        (
            prop_oneof![3 => history_dag(n).boxed(), 1 => dag_spec(n..=n, 2, 40).boxed()],
            prop::collection::vec(node_edit(), n),
            prop::collection::vec(query(), 3),
        )
            .prop_map(|(dag, edits, queries)| Case { dag, edits, queries })
    })
}

pub fn run(report: &mut Report) {
    report.set_rule(
        "model history of <=25 commits (<=2 parents, merges combine both parents' lines in 5 ways) of \
         one file edited by insert/delete/replace/move/duplicate/delete-file scripts over fresh and \
         small-alphabet lines, plus no-op commits and commits touching only another file; 3 \
         annotations per history from generated starts under domains all / x:: / explicit subset / \
         ~::x; every reported origin is checked against the validity predicate. non-trivial = some \
         annotation has >= 3 distinct origin commits and a merge among the start's ancestors inside \
         the domain; distinct by whole case",
    );
    report.assume(
        "which commits change the file (jj's files() predicate, the annotator's search filter) is \
         taken from jj's revset engine (C19/C22 check it) and cross-checked against the model for \
         single-parent commits; 'carried over from a parent' is decided by jj's own \
         ContentDiff::by_line (C03 checks it), with the annotator's argument order",
    );
    report.assume(
        "parents 'within the searched range' are read as the nearest ancestors inside domain ∩ \
         ::start ∩ files(file) (transitively implied ones excluded, as the graph walk may drop \
         them) plus the commits where a parent ancestry leaves that set",
    );
    let tier = report.tier;
    report.prop("histories", tier.pick(6000, 150_000), || case(25), check);
}
