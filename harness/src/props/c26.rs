//! C26 Edits after a command finished are always detected.
//!
//! Scenario (one case): tracked files get content A_i and forced modification
//! times T1_i; jj saves the working-copy state (by a snapshot, or by a
//! checkout); the state file `.jj/working_copy/tree_state` gets the forced
//! modification time Ts >= T1; the workspace is loaded afresh (`own_mtime` is
//! read from disk, as a new process would); one file is overwritten with
//! same-size content B at the forced time T2 >= Ts; the next snapshot must
//! record B. Only causally possible triples T1 <= Ts <= T2 are generated (a
//! monotone but arbitrarily coarse clock); T2 < Ts is a user resetting
//! timestamps and outside the property.

use std::path::PathBuf;

use jj_lib::default_backend_factories::default_working_copy_factories;
use jj_lib::repo::Repo as _;
use jj_lib::workspace::Workspace;
use pollster::FutureExt as _;
use proptest::prelude::*;
use serde::Deserialize;
use serde::Serialize;
use testutils::TestWorkspace;

use crate::engine::runner::CheckResult;
use crate::engine::runner::Outcome;
use crate::engine::runner::Report;
use crate::engine::runner::Violation;
use crate::engine::runner::pick;
use crate::ensure;
use crate::gens::content::Bytes;
use crate::model::wcaux;

#[derive(Debug, Clone, Serialize, Deserialize)]
pub struct FileSpec {
    /// Content before the edit.
    pub a: Bytes,
    /// How long before the reference T1 this file was last written (T1_i = T1 - back_ns).
    pub back_ns: u64,
}

#[derive(Debug, Clone, Serialize, Deserialize)]
pub struct Case {
    /// Working-copy state written by `check_out` (jj writes the files, their
    /// recorded mtime is the real write time) instead of by `snapshot`.
    pub via_checkout: bool,
    /// T1 = base_s seconds + phase_ns (snapshot variant; ignored with
    /// `via_checkout`, where T1 is the recorded (millisecond) write time).
    pub base_s: i64,
    pub phase_ns: u32,
    /// Ts - T1 and T2 - Ts in nanoseconds.
    pub d1_ns: u64,
    pub d2_ns: u64,
    pub files: Vec<FileSpec>,
    /// Which file is edited (mapped with `pick`).
    pub edit: u16,
    /// New content of the edited file: same length as its `a`, different bytes.
    pub b: Bytes,
}

const FILE_NAMES: &[&str] = &["f0", "dir/f1", "f2", "dir/sub/f3"];

fn v(msg: String) -> Violation {
    Violation::new(msg)
}

fn check(case: &Case) -> CheckResult {
    ensure!(!case.files.is_empty() && case.files.len() <= FILE_NAMES.len(), "harness: bad file count");
    let j = pick(case.edit, case.files.len());
    ensure!(
        case.b.0.len() == case.files[j].a.0.len() && case.b != case.files[j].a,
        "harness: B must be a same-size, different content"
    );
    let settings = testutils::user_settings();
    let mut tw = TestWorkspace::init_with_backend_and_settings(testutils::TestRepoBackend::Simple, &settings);
    let root: PathBuf = tw.workspace.workspace_root().to_owned();
    let disk = |i: usize| testutils::repo_path(FILE_NAMES[i]).to_fs_path(&root).unwrap();
    let tree_state_path = root.join(".jj").join("working_copy").join("tree_state");

    // Phase 1: jj records the files and saves its state.
    let t1: i128;
    if case.via_checkout {
        let tree = testutils::create_tree_with(&tw.repo, |b| {
            for (i, f) in case.files.iter().enumerate() {
                b.file(testutils::repo_path(FILE_NAMES[i]), &f.a.0);
            }
        });
        let commit = testutils::commit_with_tree(tw.repo.store(), tree);
        tw.workspace
            .check_out(tw.repo.op_id().clone(), None, &commit)
            .block_on()
            .map_err(|e| v(format!("check_out failed: {e:?}")))?;
        // The recorded mtime of the edited file is its real write time in
        // milliseconds; it only serves as the origin of the forced offsets.
        let real = wcaux::mtime_ns(&disk(j)).map_err(v)?;
        t1 = wcaux::jj_millis(real) * 1_000_000;
    } else {
        t1 = i128::from(case.base_s) * 1_000_000_000 + i128::from(case.phase_ns);
        for (i, f) in case.files.iter().enumerate() {
            let t1_i = t1 - if i == j { 0 } else { i128::from(f.back_ns) };
            wcaux::write_file_with_mtime(&disk(i), &f.a.0, t1_i).map_err(v)?;
        }
        let tree = tw.snapshot().map_err(|e| v(format!("first snapshot failed: {e:?}")))?;
        for (i, f) in case.files.iter().enumerate() {
            let got = wcaux::read_tree_file(&tree, testutils::repo_path(FILE_NAMES[i])).map_err(v)?;
            ensure!(got.as_deref() == Some(&f.a.0[..]), "first snapshot did not record {}", FILE_NAMES[i]);
        }
    }
    ensure!(tree_state_path.is_file(), "harness: no tree_state file at {}", tree_state_path.display());

    // Phase 2: the state file's own time (what a coarse file system would have stamped).
    let ts = t1 + i128::from(case.d1_ns);
    wcaux::set_mtime_ns(&tree_state_path, ts).map_err(v)?;

    // Phase 3: a new process.
    let mut ws = Workspace::load(
        &settings,
        &root,
        &tw.env.default_backend_factories(),
        &default_working_copy_factories(),
    )
    .map_err(|e| v(format!("Workspace::load failed: {e:?}")))?;

    // Phase 4: the same-size edit, stamped T2 >= Ts.
    let t2 = ts + i128::from(case.d2_ns);
    wcaux::write_file_with_mtime(&disk(j), &case.b.0, t2).map_err(v)?;

    // Phase 5: the next snapshot must see it.
    let (tree, _stats) =
        wcaux::snapshot_workspace(&mut ws, tw.repo.op_id().clone(), &testutils::empty_snapshot_options())
            .map_err(v)?;
    for (i, f) in case.files.iter().enumerate() {
        let want: &[u8] = if i == j { &case.b.0 } else { &f.a.0 };
        let got = wcaux::read_tree_file(&tree, testutils::repo_path(FILE_NAMES[i])).map_err(v)?;
        ensure!(
            got.as_deref() == Some(want),
            "{}: snapshot after the edit has {:?}, expected {:?} (edited file: {}; T1={} ms, Ts={} ms, T2={} ms; \
             d1={} ns d2={} ns; via_checkout={})",
            FILE_NAMES[i],
            got.map(Bytes),
            Bytes(want.to_vec()),
            FILE_NAMES[j],
            wcaux::jj_millis(t1),
            wcaux::jj_millis(ts),
            wcaux::jj_millis(t2),
            case.d1_ns,
            case.d2_ns,
            case.via_checkout
        );
    }

    let (m1, ms, m2) = (wcaux::jj_millis(t1), wcaux::jj_millis(ts), wcaux::jj_millis(t2));
    let indistinguishable = m1 == m2;
    Ok(Outcome::new(indistinguishable)
        .class_if(indistinguishable, "T1==Ts==T2 (ms)")
        .class_if(m1 == ms && ms < m2, "T1==Ts<T2 (ms)")
        .class_if(m1 < ms && ms == m2, "T1<Ts==T2 (ms)")
        .class_if(m1 < ms && ms < m2, "T1<Ts<T2 (ms)")
        .class_if(indistinguishable && (case.d1_ns > 0 || case.d2_ns > 0), "equal ms, different ns")
        .class_if(m1 != m2 && m1 / 1000 == m2 / 1000, "same second, different ms")
        .class_if(m1 / 2000 == m2 / 2000 && m1 != m2, "same 2s slot, different ms")
        .class_if(case.via_checkout, "state written by check_out")
        .class_if(!case.via_checkout, "state written by snapshot")
        .class_if(case.files.len() > 1, "several files")
        .class_if(case.files.len() > 1 && j + 1 != case.files.len(), "edited file is not the last one")
        .class_if(!case.via_checkout && case.base_s <= 0, "T1 at or before the epoch")
        .class_if(!case.via_checkout && case.base_s >= 4_000_000_000, "T1 in the future"))
}

/// Offsets that realise every ordering/equality pattern at 1 ms, 1 s and 2 s
/// granularity (0 and 300 us stay inside one millisecond).
const GRID_OFFSETS_NS: &[u64] = &[0, 300_000, 1_000_000, 1_000_000_000, 2_000_000_000];
/// Phases of T1 inside its second: aligned; 0.3 ms before a millisecond *and*
/// second boundary; somewhere in the middle.
const GRID_PHASES_NS: &[u32] = &[0, 999_600_000, 123_456_789];
const GRID_BASES_S: &[i64] = &[1_000_000_001, 1_700_000_000];

fn make_b(a: &Bytes, flips: &[(u16, u8)]) -> Bytes {
    let mut b = a.0.clone();
    for (pos, x) in flips {
        let i = pick(*pos, b.len());
        b[i] ^= *x;
    }
    if b == a.0 {
        b[0] ^= 1;
    }
    Bytes(b)
}

fn grid_cases() -> Vec<Case> {
    let contents: &[(&str, &str)] = &[("a\n", "b\n"), ("hello world\n", "hellO world\n")];
    let mut out = vec![];
    for via_checkout in [false, true] {
        for &base_s in GRID_BASES_S {
            for &phase_ns in GRID_PHASES_NS {
                if via_checkout && (base_s != GRID_BASES_S[0] || phase_ns != 0) {
                    continue; // base and phase are unused with check_out
                }
                for &d1_ns in GRID_OFFSETS_NS {
                    for &d2_ns in GRID_OFFSETS_NS {
                        for (n, (a, b)) in contents.iter().enumerate() {
                            let mut files = vec![FileSpec { a: (*a).into(), back_ns: 0 }];
                            if n == 1 {
                                files.push(FileSpec { a: "other\n".into(), back_ns: 1_000_000 });
                            }
                            out.push(Case {
                                via_checkout,
                                base_s,
                                phase_ns,
                                d1_ns,
                                d2_ns,
                                files,
                                edit: 0,
                                b: (*b).into(),
                            });
                        }
                    }
                }
            }
        }
    }
    out
}

fn offset_strategy() -> impl Strategy<Value = u64> {
    prop_oneof![
        6 => Just(0u64),
        2 => Just(1u64),
        3 => Just(300_000u64),
        1 => Just(999_999u64),
        3 => Just(1_000_000u64),
        1 => Just(2_000_000u64),
        1 => Just(999_000_000u64),
        3 => Just(1_000_000_000u64),
        2 => Just(2_000_000_000u64),
        1 => Just(3_600_000_000_000u64),
        2 => 0u64..2_000_000,
        2 => 0u64..4_000_000_000,
    ]
}

fn content_strategy() -> impl Strategy<Value = Bytes> {
    prop_oneof![
        3 => prop::collection::vec(prop::sample::select(vec![b'a', b'b', b'\n', b' ', b'0']), 1..12).prop_map(Bytes),
        1 => prop::collection::vec(any::<u8>(), 1..40).prop_map(Bytes),
        1 => Just(Bytes(b"x".to_vec())),
    ]
}

fn random_case() -> impl Strategy<Value = Case> {
    let base = prop_oneof![
        4 => Just(1_700_000_000i64),
        2 => Just(1_000_000_001i64),
        2 => Just(4_102_444_800i64), // 2100: later than the real clock
        1 => Just(0i64),
        1 => Just(-1i64),
        1 => Just(1i64),
        3 => 1i64..8_000_000_000,
    ];
    let phase = prop_oneof![
        3 => Just(0u32),
        2 => Just(999_600_000u32),
        1 => Just(999_999_999u32),
        1 => Just(500_000u32),
        3 => 0u32..1_000_000_000,
    ];
    let back = prop_oneof![Just(0u64), Just(1_000_000u64), Just(1_000_000_000u64), 0u64..3_000_000_000];
    (
        (any::<bool>(), base, phase, offset_strategy(), offset_strategy()),
        prop::collection::vec((content_strategy(), back), 1..=4),
        any::<u16>(),
        prop::collection::vec((any::<u16>(), 1u8..=255), 1..4),
    )
        .prop_map(|((via_checkout, base_s, phase_ns, d1_ns, d2_ns), files, edit, flips)| {
            let files: Vec<FileSpec> = files.into_iter().map(|(a, back_ns)| FileSpec { a, back_ns }).collect();
            let j = pick(edit, files.len());
            let b = make_b(&files[j].a, &flips);
            Case { via_checkout, base_s, phase_ns, d1_ns, d2_ns, files, edit, b }
        })
}

pub fn run(report: &mut Report) {
    report.set_rule(
        "a case = files with content A_i stamped T1_i, state saved by snapshot or by check_out, tree_state stamped \
         Ts = T1+d1, workspace reloaded from disk, one file overwritten with same-size different content B stamped \
         T2 = Ts+d2 (d1,d2 >= 0: only causally possible triples), next snapshot must record B and leave the other \
         files alone. Sub-check `grid` enumerates d1,d2 in {0, 0.3ms, 1ms, 1s, 2s}^2 x 3 phases of T1 within its \
         second x 2 absolute bases x both state writers x 2 content shapes; `random` draws offsets (0, 1ns, sub-ms, \
         ms, s, hours, uniform), bases (incl. the epoch, before the epoch, year 2100, uniform), 1-4 files and random \
         contents. Non-trivial = T2 and T1 are the same millisecond as jj records them (size, type and recorded \
         mtime cannot distinguish the edit); distinct by whole case",
    );
    report.assume(
        "mtimes are forced with futimens and read back for confirmation; in the check_out variant the origin T1 is \
         the real write time jj recorded (only offsets from it are generated)",
    );
    report.assume("the scratch file system stores nanosecond timestamps unchanged (tmpfs/ext4)");
    let tier = report.tier;
    report.enumerate_par("grid", true, grid_cases(), check);
    report.prop("random", tier.pick(1200, 120_000), random_case, check);
}
