//! C17 Commit backends return on read exactly what write reported.
//!
//! One case = one fresh repository (Git or Simple backend): a few model trees
//! are written through the store, a few plain "base" commits give real parents,
//! then one or two generated `backend::Commit`s are written with
//! `Store::write_commit`. A *fresh* backend object (in a new `Store`) is then
//! loaded on the same store directory and every id is read back through it:
//!
//! * `read_commit(id)` must equal, field by field, the commit that
//!   `write_commit` returned (and cached);
//! * if the commits returned by two writes differ, their ids differ;
//! * trees, files and symlinks read back identical to what was written.

use std::sync::Arc;

use jj_lib::backend;
use jj_lib::backend::ChangeId;
use jj_lib::backend::CommitId;
use jj_lib::backend::MillisSinceEpoch;
use jj_lib::backend::Signature;
use jj_lib::backend::Timestamp;
use jj_lib::backend::TreeId;
use jj_lib::backend::TreeValue;
use jj_lib::conflict_labels::ConflictLabels;
use jj_lib::git_backend::GitBackend;
use jj_lib::settings::UserSettings;
use jj_lib::signing::Signer;
use jj_lib::simple_backend::SimpleBackend;
use jj_lib::tree_merge::MergeOptions;
use jj_lib::merge::Merge;
use jj_lib::merged_tree::MergedTree;
use jj_lib::repo::Repo as _;
use jj_lib::repo_path::RepoPathBuf;
use jj_lib::store::Store;
use pollster::FutureExt as _;
use proptest::prelude::*;
use serde::Deserialize;
use serde::Serialize;
use testutils::TestRepo;
use testutils::TestRepoBackend;

use crate::engine::runner::CheckResult;
use crate::engine::runner::Outcome;
use crate::engine::runner::Report;
use crate::engine::runner::Violation;
use crate::engine::runner::pick;
use crate::ensure;
use crate::ensure_eq;
use crate::model::tree as tm;
use crate::model::tree::ModelTree;

/// Known finding: gix trims Unicode whitespace around name and email when a
/// commit is parsed, so the git backend reads back `"a"` where write returned
/// `" a"`.
pub const SIG_WS_TRIM: &str = "C17-git-signature-whitespace-trimmed";

// ---------------------------------------------------------------------------
// Case types
// ---------------------------------------------------------------------------

#[derive(Debug, Clone, Copy, PartialEq, Eq, Serialize, Deserialize)]
pub enum BackendKind {
    Git,
    Simple,
}

#[derive(Debug, Clone, PartialEq, Eq, Serialize, Deserialize)]
pub struct SigSpec {
    pub name: String,
    pub email: String,
    pub millis: i64,
    /// Minutes.
    pub tz: i32,
}

#[derive(Debug, Clone, PartialEq, Eq, Serialize, Deserialize)]
pub struct CommitSpec {
    /// Indices into `[root, base commits..]`, mapped with `pick`. With more than
    /// one parent the root commit is left out of the pool unless
    /// `allow_root_in_merge` is set (the git backend must reject such a merge).
    pub parents: Vec<u16>,
    #[serde(default)]
    pub allow_root_in_merge: bool,
    /// 1, 3 or 5 indices into `[empty tree, trees..]`, mapped with `pick`.
    pub tree_sides: Vec<u16>,
    /// `None` = unlabeled; otherwise one label per tree side (padded/truncated).
    pub labels: Option<Vec<String>>,
    pub change_id: Vec<u8>,
    /// Seeds of predecessor ids (the id is the seed byte repeated to the
    /// backend's commit id length).
    pub predecessors: Vec<u8>,
    pub description: String,
    pub author: SigSpec,
    pub committer: SigSpec,
}

#[derive(Debug, Clone, Serialize, Deserialize)]
pub enum CommitMutation {
    ChangeIdByte(u16),
    AddPredecessor(u8),
    DropPredecessor(u16),
    DescriptionAppend(String),
    AuthorName(String),
    AuthorEmail(String),
    CommitterName(String),
    CommitterEmail(String),
    AuthorMillisAdd(i64),
    CommitterMillisAdd(i64),
    AuthorTzAdd(i32),
    CommitterTzAdd(i32),
    SwapSignatures,
    ReplaceParent(u16, u16),
    AddParent(u16),
    DropParent(u16),
    ReverseParents,
    ReplaceTreeSide(u16, u16),
    SwapTreeSides(u16),
    SetLabel(u16, String),
    ToggleLabels,
}

#[derive(Debug, Clone, Serialize, Deserialize)]
pub enum SecondCommit {
    None,
    Same,
    Independent(CommitSpec),
    Mutated(Vec<CommitMutation>),
}

#[derive(Debug, Clone, Serialize, Deserialize)]
pub struct Case {
    pub backend: BackendKind,
    pub trees: Vec<ModelTree>,
    /// Extra symlink (unicode target) put into the first tree, if any.
    pub extra_symlink: Option<String>,
    /// For each base commit, the raw index of its parent among the earlier ones.
    pub base_commits: Vec<u16>,
    pub a: CommitSpec,
    pub b: SecondCommit,
}

// ---------------------------------------------------------------------------
// Domain predicates (exclusions are counted, not filtered)
// ---------------------------------------------------------------------------

const PLACEHOLDER: &str = "JJ_EMPTY_STRING";

fn sig_field_excluded(s: &str) -> Option<&'static str> {
    if s.contains(['<', '>', '\n']) {
        Some("excluded:angle_or_newline_in_name_or_email")
    } else if s == PLACEHOLDER {
        Some("excluded:JJ_EMPTY_STRING_literal")
    } else {
        None
    }
}

fn spec_excluded(spec: &CommitSpec) -> Option<&'static str> {
    if spec.description.contains('\0') {
        return Some("excluded:NUL_in_description");
    }
    for sig in [&spec.author, &spec.committer] {
        for field in [&sig.name, &sig.email] {
            if let Some(why) = sig_field_excluded(field) {
                return Some(why);
            }
        }
    }
    if let Some(labels) = &spec.labels
        && labels.iter().any(|l| l.contains('\n'))
    {
        return Some("excluded:newline_in_label");
    }
    None
}

fn has_edge_whitespace(s: &str) -> bool {
    s.trim() != s
}

// ---------------------------------------------------------------------------
// Generators
// ---------------------------------------------------------------------------

fn name_strategy() -> impl Strategy<Value = String> {
    prop_oneof![
        6 => prop::sample::select(vec![
            "A", "a b", "Ünï Cødé", "日本 語", "x@y", "a.b-c_d", "o'brien", "a,b;c", "(paren)", "\"q\"",
            "a\tb", "a  b", "\u{1F600}", "é",
        ])
        .prop_map(str::to_string),
        3 => Just(String::new()),
        2 => "[a-c @.]{1,6}".prop_map(|s| s.trim().to_string()),
        2 => "[^\\p{C}<>]{1,8}".prop_map(|s| s.trim().to_string()),
    ]
}

/// Names/emails with the documented exclusions mixed in at a low rate so that
/// they are counted.
fn name_or_excluded_strategy() -> impl Strategy<Value = String> {
    prop_oneof![
        80 => name_strategy(),
        1 => prop::sample::select(vec!["a<b", "a>b", "<", "a\nb", PLACEHOLDER]).prop_map(str::to_string),
        // Leading/trailing (Unicode) whitespace: known finding for git
        // (signature C17-git-signature-whitespace-trimmed); kept at a low rate.
        1 => prop::sample::select(vec![" a", "a ", " ", "\ta", "a\u{a0}", "\u{3000}a b", "  a  "])
            .prop_map(str::to_string),
    ]
}

fn millis_strategy() -> impl Strategy<Value = i64> {
    prop_oneof![
        3 => 1_600_000_000_000i64..1_800_000_000_000,
        2 => (1_600_000_000i64..1_800_000_000).prop_map(|s| s * 1000),
        2 => -5_000i64..5_000,
        2 => -2_000_000_000_000i64..0,
        1 => prop::sample::select(vec![0i64, 1, -1, 999, 1000, -999, -1000, -1001, 1_700_000_000_123]),
        1 => -(1i64 << 45)..(1i64 << 47),
    ]
}

fn tz_strategy() -> impl Strategy<Value = i32> {
    prop_oneof![
        3 => prop::sample::select(vec![0, 60, -60, 330, -570, 1439, -1439, 1, -1, 59, -59]),
        2 => -1439i32..=1439,
    ]
}

fn sig_strategy() -> impl Strategy<Value = SigSpec> {
    (name_or_excluded_strategy(), name_or_excluded_strategy(), millis_strategy(), tz_strategy())
        .prop_map(|(name, email, millis, tz)| SigSpec { name, email, millis, tz })
}

fn description_strategy() -> impl Strategy<Value = String> {
    prop_oneof![
        3 => Just(String::new()),
        6 => prop::sample::select(vec![
            "subject\n", "subject", "subject\n\nbody\n", "subject\n\n\n", "\n", "\nleading newline",
            "ünï\n", " \n", "a\r\nb\r\n", "tree deadbeef\nparent x\n", "change-id zzz\n", "trailing space \n",
            "\u{feff}bom", "gpgsig -----BEGIN\n",
        ])
        .prop_map(str::to_string),
        3 => "[a-c \\n]{0,12}",
        2 => "\\PC{0,12}(\\n)?",
    ]
}

fn description_or_excluded_strategy() -> impl Strategy<Value = String> {
    prop_oneof![
        40 => description_strategy(),
        1 => Just("nul\0inside".to_string()),
    ]
}

fn label_strategy() -> impl Strategy<Value = String> {
    prop_oneof![
        6 => prop::sample::select(vec![
            "side #1", "base", "rebase destination (abc 123)", "ü", "a b", "", " lead", "trail ", "x\ty",
            "jj:trees", "-",
        ])
        .prop_map(str::to_string),
        2 => "[a-c ]{0,5}",
    ]
}

fn commit_spec_strategy() -> impl Strategy<Value = CommitSpec> {
    let sides = prop_oneof![
        4 => prop::collection::vec(any::<u16>(), 1),
        4 => prop::collection::vec(any::<u16>(), 3),
        2 => prop::collection::vec(any::<u16>(), 5),
    ];
    (
        prop::collection::vec(any::<u16>(), 1..=3),
        sides,
        prop::option::weighted(
            0.6,
            prop_oneof![
                40 => prop::collection::vec(label_strategy(), 5),
                1 => Just(vec!["two\nlines".to_string(); 5]),
            ],
        ),
        prop::bool::weighted(0.04),
        prop::collection::vec(any::<u8>(), 16),
        prop::collection::vec(0u8..4, 0..=3),
        description_or_excluded_strategy(),
        sig_strategy(),
        sig_strategy(),
    )
        .prop_map(
            |(
                parents,
                tree_sides,
                labels,
                allow_root_in_merge,
                change_id,
                predecessors,
                description,
                author,
                committer,
            )| {
                CommitSpec {
                    parents,
                    allow_root_in_merge,
                    tree_sides,
                    labels,
                    change_id,
                    predecessors,
                    description,
                    author,
                    committer,
                }
            },
        )
}

fn mutation_strategy() -> impl Strategy<Value = CommitMutation> {
    use CommitMutation as M;
    let a = || any::<u16>();
    let small = || prop::sample::select(vec!["x", "", "y z", "é"]).prop_map(str::to_string);
    prop_oneof![
        2 => a().prop_map(M::ChangeIdByte),
        4 => (0u8..4).prop_map(M::AddPredecessor),
        2 => a().prop_map(M::DropPredecessor),
        1 => small().prop_map(M::DescriptionAppend),
        1 => small().prop_map(M::AuthorName),
        1 => small().prop_map(M::AuthorEmail),
        1 => small().prop_map(M::CommitterName),
        1 => small().prop_map(M::CommitterEmail),
        2 => prop::sample::select(vec![1i64, -1, 500, 1000, -1000, 999]).prop_map(M::AuthorMillisAdd),
        2 => prop::sample::select(vec![1i64, -1, 500, 1000, -1000, 999]).prop_map(M::CommitterMillisAdd),
        1 => prop::sample::select(vec![1, -1, 60]).prop_map(M::AuthorTzAdd),
        1 => prop::sample::select(vec![1, -1, 60]).prop_map(M::CommitterTzAdd),
        1 => Just(M::SwapSignatures),
        1 => (a(), a()).prop_map(|(x, y)| M::ReplaceParent(x, y)),
        1 => a().prop_map(M::AddParent),
        1 => a().prop_map(M::DropParent),
        1 => Just(M::ReverseParents),
        1 => (a(), a()).prop_map(|(x, y)| M::ReplaceTreeSide(x, y)),
        1 => a().prop_map(M::SwapTreeSides),
        1 => (a(), label_strategy()).prop_map(|(x, l)| M::SetLabel(x, l)),
        1 => Just(M::ToggleLabels),
    ]
}

pub fn case_strategy(backend: BackendKind) -> impl Strategy<Value = Case> {
    let second = prop_oneof![
        2 => Just(SecondCommit::None),
        1 => Just(SecondCommit::Same),
        2 => commit_spec_strategy().prop_map(SecondCommit::Independent),
        6 => prop::collection::vec(mutation_strategy(), 1..=2).prop_map(SecondCommit::Mutated),
    ];
    (
        prop::collection::vec(tm::model_tree(5), 0..=3),
        prop::option::weighted(
            0.3,
            prop::sample::select(vec!["ü/é", "日本", "a b", "../\u{1F600}", ""]).prop_map(str::to_string),
        ),
        prop::collection::vec(any::<u16>(), 0..=4),
        commit_spec_strategy(),
        second,
    )
        .prop_map(move |(trees, extra_symlink, base_commits, a, b)| Case {
            backend,
            trees,
            extra_symlink,
            base_commits,
            a,
            b,
        })
}

// ---------------------------------------------------------------------------
// Applying mutations to a spec
// ---------------------------------------------------------------------------

fn mutate(spec: &mut CommitSpec, m: &CommitMutation) -> Option<&'static str> {
    use CommitMutation as M;
    match m {
        M::ChangeIdByte(raw) => {
            let i = pick(*raw, spec.change_id.len().max(1));
            let b = spec.change_id.get_mut(i)?;
            *b ^= 1;
            Some("mut:change_id")
        }
        M::AddPredecessor(seed) => {
            spec.predecessors.push(*seed);
            Some("mut:predecessors")
        }
        M::DropPredecessor(raw) => {
            if spec.predecessors.is_empty() {
                return None;
            }
            let i = pick(*raw, spec.predecessors.len());
            spec.predecessors.remove(i);
            Some("mut:predecessors")
        }
        M::DescriptionAppend(s) => {
            spec.description.push_str(s);
            spec.description.push('!');
            Some("mut:description")
        }
        M::AuthorName(s) => {
            spec.author.name = s.clone();
            Some("mut:author.name")
        }
        M::AuthorEmail(s) => {
            spec.author.email = s.clone();
            Some("mut:author.email")
        }
        M::CommitterName(s) => {
            spec.committer.name = s.clone();
            Some("mut:committer.name")
        }
        M::CommitterEmail(s) => {
            spec.committer.email = s.clone();
            Some("mut:committer.email")
        }
        M::AuthorMillisAdd(d) => {
            spec.author.millis = spec.author.millis.checked_add(*d)?;
            Some("mut:author.timestamp")
        }
        M::CommitterMillisAdd(d) => {
            spec.committer.millis = spec.committer.millis.checked_add(*d)?;
            Some("mut:committer.timestamp")
        }
        M::AuthorTzAdd(d) => {
            let tz = spec.author.tz + d;
            if !(-1439..=1439).contains(&tz) {
                return None;
            }
            spec.author.tz = tz;
            Some("mut:author.tz")
        }
        M::CommitterTzAdd(d) => {
            let tz = spec.committer.tz + d;
            if !(-1439..=1439).contains(&tz) {
                return None;
            }
            spec.committer.tz = tz;
            Some("mut:committer.tz")
        }
        M::SwapSignatures => {
            std::mem::swap(&mut spec.author, &mut spec.committer);
            Some("mut:swap_signatures")
        }
        M::ReplaceParent(i, new) => {
            let i = pick(*i, spec.parents.len().max(1));
            *spec.parents.get_mut(i)? = *new;
            Some("mut:parents")
        }
        M::AddParent(new) => {
            if spec.parents.len() >= 3 {
                return None;
            }
            spec.parents.push(*new);
            Some("mut:parents")
        }
        M::DropParent(raw) => {
            if spec.parents.len() < 2 {
                return None;
            }
            let i = pick(*raw, spec.parents.len());
            spec.parents.remove(i);
            Some("mut:parents")
        }
        M::ReverseParents => {
            spec.parents.reverse();
            Some("mut:parents")
        }
        M::ReplaceTreeSide(i, new) => {
            let i = pick(*i, spec.tree_sides.len().max(1));
            *spec.tree_sides.get_mut(i)? = *new;
            Some("mut:root_tree")
        }
        M::SwapTreeSides(raw) => {
            if spec.tree_sides.len() < 3 {
                return None;
            }
            let i = pick(*raw, spec.tree_sides.len() - 1);
            spec.tree_sides.swap(i, i + 1);
            Some("mut:root_tree")
        }
        M::SetLabel(raw, label) => {
            let labels = spec.labels.as_mut()?;
            let i = pick(*raw, labels.len().max(1));
            *labels.get_mut(i)? = label.clone();
            Some("mut:conflict_labels")
        }
        M::ToggleLabels => {
            spec.labels = match spec.labels {
                Some(_) => None,
                None => Some(vec!["l0".into(), "l1".into(), "l2".into(), "l3".into(), "l4".into()]),
            };
            Some("mut:conflict_labels")
        }
    }
}

// ---------------------------------------------------------------------------
// Building backend commits
// ---------------------------------------------------------------------------

struct Env {
    kind: BackendKind,
    store: Arc<Store>,
    /// `[root, base commits..]`
    parent_pool: Vec<CommitId>,
    /// `[empty tree, trees..]`
    tree_pool: Vec<TreeId>,
    commit_id_len: usize,
}

fn signature(s: &SigSpec) -> Signature {
    Signature {
        name: s.name.clone(),
        email: s.email.clone(),
        timestamp: Timestamp {
            timestamp: MillisSinceEpoch(s.millis),
            tz_offset: s.tz,
        },
    }
}

struct Built {
    commit: backend::Commit,
    root_in_merge: bool,
    labels_all_empty: bool,
}

fn build_commit(env: &Env, spec: &CommitSpec) -> Built {
    let merge = spec.parents.len() > 1;
    let pool: &[CommitId] = if merge && !spec.allow_root_in_merge && env.parent_pool.len() > 1 {
        &env.parent_pool[1..]
    } else {
        &env.parent_pool
    };
    let mut parents: Vec<CommitId> = spec
        .parents
        .iter()
        .map(|raw| pool[pick(*raw, pool.len())].clone())
        .collect();
    if merge && !spec.allow_root_in_merge && env.parent_pool.len() == 1 {
        // Only the root commit exists: a single root parent.
        parents.truncate(1);
    }
    let root_in_merge = parents.len() > 1 && parents.contains(&env.parent_pool[0]);
    let sides: Vec<TreeId> = spec
        .tree_sides
        .iter()
        .map(|raw| env.tree_pool[pick(*raw, env.tree_pool.len())].clone())
        .collect();
    let root_tree = Merge::from_vec(sides);
    let mut labels_all_empty = false;
    let conflict_labels = match &spec.labels {
        Some(labels) if !root_tree.is_resolved() => {
            let n = root_tree.as_slice().len();
            let labels: Vec<String> = labels.iter().cycle().take(n).cloned().collect();
            labels_all_empty = labels.iter().all(|l| l.is_empty());
            // The documented constructor: all-empty labels mean "unlabeled".
            ConflictLabels::from_merge(Merge::from_vec(labels)).into_merge()
        }
        _ => ConflictLabels::unlabeled().into_merge(),
    };
    let predecessors = spec
        .predecessors
        .iter()
        .map(|seed| CommitId::new(vec![0x10 + *seed; env.commit_id_len]))
        .collect();
    Built {
        commit: backend::Commit {
            parents,
            predecessors,
            root_tree,
            conflict_labels,
            change_id: ChangeId::new(spec.change_id.clone()),
            description: spec.description.clone(),
            author: signature(&spec.author),
            committer: signature(&spec.committer),
            secure_sig: None,
        },
        root_in_merge,
        labels_all_empty,
    }
}

// ---------------------------------------------------------------------------
// Field-by-field comparison
// ---------------------------------------------------------------------------

/// Names of the fields in which the two commits differ, with both values.
pub fn diff_commits(returned: &backend::Commit, read: &backend::Commit) -> Vec<(&'static str, String)> {
    let mut out = vec![];
    macro_rules! cmp {
        ($name:literal, $($field:tt)+) => {
            if returned.$($field)+ != read.$($field)+ {
                out.push((
                    $name,
                    format!("returned={:?} read={:?}", returned.$($field)+, read.$($field)+),
                ));
            }
        };
    }
    cmp!("parents", parents);
    cmp!("predecessors", predecessors);
    cmp!("root_tree", root_tree);
    cmp!("conflict_labels", conflict_labels);
    cmp!("change_id", change_id);
    cmp!("description", description);
    cmp!("author.name", author.name);
    cmp!("author.email", author.email);
    cmp!("author.timestamp", author.timestamp.timestamp);
    cmp!("author.tz_offset", author.timestamp.tz_offset);
    cmp!("committer.name", committer.name);
    cmp!("committer.email", committer.email);
    cmp!("committer.timestamp", committer.timestamp.timestamp);
    cmp!("committer.tz_offset", committer.timestamp.tz_offset);
    cmp!("secure_sig", secure_sig);
    if out.is_empty() && returned != read {
        out.push(("<other>", format!("returned={returned:?} read={read:?}")));
    }
    out
}

/// Signature of the whitespace-trimming finding: git backend, every differing
/// field is a name/email and the value read is the trimmed value returned.
fn is_whitespace_trim_only(
    kind: BackendKind,
    returned: &backend::Commit,
    read: &backend::Commit,
    diffs: &[(&'static str, String)],
) -> bool {
    if kind != BackendKind::Git || diffs.is_empty() {
        return false;
    }
    diffs.iter().all(|(field, _)| {
        let (ret, rd) = match *field {
            "author.name" => (&returned.author.name, &read.author.name),
            "author.email" => (&returned.author.email, &read.author.email),
            "committer.name" => (&returned.committer.name, &read.committer.name),
            "committer.email" => (&returned.committer.email, &read.committer.email),
            _ => return false,
        };
        has_edge_whitespace(ret) && ret.trim() == rd
    })
}

fn compare_read_back(
    kind: BackendKind,
    what: &str,
    id: &CommitId,
    returned: &backend::Commit,
    read: &backend::Commit,
) -> Result<(), Violation> {
    let diffs = diff_commits(returned, read);
    if diffs.is_empty() {
        return Ok(());
    }
    let msg = format!(
        "{kind:?} backend: read_commit({id}) of commit {what} differs from what write_commit returned in \
         [{}]: {}",
        diffs.iter().map(|(f, _)| *f).collect::<Vec<_>>().join(", "),
        diffs
            .iter()
            .map(|(f, d)| format!("{f}: {d}"))
            .collect::<Vec<_>>()
            .join("; ")
    );
    if is_whitespace_trim_only(kind, returned, read, &diffs) {
        Err(Violation::known(SIG_WS_TRIM, msg))
    } else {
        Err(Violation::new(msg))
    }
}

// ---------------------------------------------------------------------------
// Tree comparison
// ---------------------------------------------------------------------------

fn compare_trees_recursive(
    written: &Arc<Store>,
    fresh: &Arc<Store>,
    dir: RepoPathBuf,
    id: &TreeId,
    depth: usize,
) -> Result<(), Violation> {
    ensure!(depth < 16, "tree nesting too deep");
    let w = written
        .get_tree(dir.clone(), id)
        .block_on()
        .map_err(|e| Violation::new(format!("get_tree (writer) {dir:?}: {e}")))?;
    let r = fresh
        .backend()
        .read_tree(&dir, id)
        .block_on()
        .map_err(|e| Violation::new(format!("read_tree (fresh) {dir:?}: {e}")))?;
    ensure!(
        *w.data() == r,
        "read_tree({dir:?}, {id}) differs from the tree that was written: written={:?} read={r:?}",
        w.data()
    );
    for entry in r.entries() {
        if let TreeValue::Tree(sub_id) = entry.value() {
            compare_trees_recursive(written, fresh, dir.join(entry.name()), sub_id, depth + 1)?;
        }
    }
    Ok(())
}

// ---------------------------------------------------------------------------
// The check
// ---------------------------------------------------------------------------

/// A new backend object (and a new `Store` with empty caches) on the directory
/// the commits were written to.
fn fresh_store(
    kind: BackendKind,
    settings: &UserSettings,
    store_path: &std::path::Path,
) -> Result<Arc<Store>, Violation> {
    let backend: Box<dyn backend::Backend> = match kind {
        BackendKind::Git => Box::new(
            GitBackend::load(settings, store_path).map_err(|e| backend_err("GitBackend::load", e))?,
        ),
        BackendKind::Simple => Box::new(SimpleBackend::load(store_path)),
    };
    let signer = Signer::from_settings(settings).map_err(|e| backend_err("signer", e))?;
    let merge_options =
        MergeOptions::from_settings(settings).map_err(|e| backend_err("merge options", e))?;
    Ok(Store::new(backend, signer, merge_options))
}

fn backend_err(what: &str, e: impl std::fmt::Display) -> Violation {
    Violation::new(format!("{what}: {e}"))
}

fn spec_classes(out: Outcome, spec: &CommitSpec, built: &Built) -> (Outcome, bool) {
    let c = &built.commit;
    let conflicted = !c.root_tree.is_resolved();
    let subsecond = [&spec.author, &spec.committer]
        .iter()
        .any(|s| s.millis.rem_euclid(1000) != 0);
    let negative = [&spec.author, &spec.committer].iter().any(|s| s.millis < 0);
    let empty_name = [&spec.author, &spec.committer]
        .iter()
        .any(|s| s.name.is_empty() || s.email.is_empty());
    let out = out
        .class_if(conflicted, "conflicted_tree")
        .class_if(conflicted && !c.conflict_labels.is_resolved(), "conflict_labels")
        .class_if(c.root_tree.as_slice().len() == 5, "tree_5_sides")
        .class_if(subsecond, "subsecond_timestamp")
        .class_if(spec.author.millis.rem_euclid(1000) != 0, "author_subsecond")
        .class_if(negative, "negative_timestamp")
        .class_if(empty_name, "empty_name_or_email")
        .class_if(c.parents.len() >= 2, "merge_parents")
        .class_if(!c.predecessors.is_empty(), "predecessors")
        .class_if(c.description.is_empty(), "empty_description")
        .class_if(
            spec.author.tz != 0 && spec.author.tz % 60 != 0,
            "tz_not_whole_hours",
        )
        .class_if(built.labels_all_empty && conflicted, "labels_all_empty_normalised_to_unlabeled");
    (out, conflicted || subsecond || negative || empty_name)
}

fn check(case: &Case) -> CheckResult {
    let kind = case.backend;
    let settings = testutils::user_settings();
    let test_repo = TestRepo::init_with_backend(match kind {
        BackendKind::Git => TestRepoBackend::Git,
        BackendKind::Simple => TestRepoBackend::Simple,
    });
    let store = test_repo.repo.store().clone();

    // Trees.
    let mut models: Vec<ModelTree> = case.trees.clone();
    if let (Some(target), Some(first)) = (&case.extra_symlink, models.first_mut()) {
        tm::put(first, "s/ü link", tm::Entry::Symlink(target.clone()));
    }
    let mut tree_pool = vec![store.empty_tree_id().clone()];
    for model in &models {
        let merged = tm::write_tree(&store, model);
        let id = merged
            .tree_ids()
            .as_resolved()
            .ok_or_else(|| Violation::new("model tree did not write as a resolved tree"))?
            .clone();
        tree_pool.push(id);
    }

    // Base commits (plain, whole-second timestamps) to serve as parents.
    let mut parent_pool = vec![store.root_commit_id().clone()];
    let mut written: Vec<(String, CommitId, Arc<backend::Commit>)> = vec![];
    for (i, raw) in case.base_commits.iter().enumerate() {
        let parent = parent_pool[pick(*raw, parent_pool.len())].clone();
        let sig = Signature {
            name: format!("base {i}"),
            email: "base@example.com".into(),
            timestamp: Timestamp {
                timestamp: MillisSinceEpoch(1_000_000_000_000 + i as i64 * 1000),
                tz_offset: 0,
            },
        };
        let commit = backend::Commit {
            parents: vec![parent],
            predecessors: vec![],
            root_tree: Merge::resolved(tree_pool[pick(*raw, tree_pool.len())].clone()),
            conflict_labels: ConflictLabels::unlabeled().into_merge(),
            change_id: ChangeId::new(vec![0xb0 + i as u8; 16]),
            description: format!("base {i}\n"),
            author: sig.clone(),
            committer: sig,
            secure_sig: None,
        };
        let c = store
            .write_commit(commit, None)
            .block_on()
            .map_err(|e| backend_err("writing base commit", e))?;
        parent_pool.push(c.id().clone());
        written.push((format!("base{i}"), c.id().clone(), c.store_commit().clone()));
    }

    let env = Env {
        kind,
        store: store.clone(),
        parent_pool,
        tree_pool,
        commit_id_len: store.commit_id_length(),
    };

    // The commits under test.
    let mut out = Outcome::new(false).class(match kind {
        BackendKind::Git => "backend:git",
        BackendKind::Simple => "backend:simple",
    });
    let mut specs: Vec<(&'static str, CommitSpec)> = vec![("a", case.a.clone())];
    match &case.b {
        SecondCommit::None => {}
        SecondCommit::Same => {
            specs.push(("b", case.a.clone()));
            out = out.class("second:same");
        }
        SecondCommit::Independent(spec) => {
            specs.push(("b", spec.clone()));
            out = out.class("second:independent");
        }
        SecondCommit::Mutated(ms) => {
            let mut b = case.a.clone();
            let mut labels = vec![];
            for m in ms {
                if let Some(l) = mutate(&mut b, m) {
                    labels.push(l);
                }
            }
            if b != case.a {
                for l in labels {
                    out = out.class(l);
                }
            }
            specs.push(("b", b));
        }
    }

    let mut nontrivial = false;
    let mut results: Vec<(CommitId, Arc<backend::Commit>)> = vec![];
    for (what, spec) in &specs {
        if let Some(why) = spec_excluded(spec) {
            out = out.class(why);
            continue;
        }
        let built = build_commit(&env, spec);
        let (o, nt) = spec_classes(out, spec, &built);
        out = o;
        let edge_ws = [&spec.author, &spec.committer]
            .iter()
            .any(|s| has_edge_whitespace(&s.name) || has_edge_whitespace(&s.email));
        out = out.class_if(edge_ws, "edge_whitespace_in_name_or_email");
        match env.store.write_commit(built.commit.clone(), None).block_on() {
            Ok(c) => {
                nontrivial |= nt;
                ensure!(
                    !(kind == BackendKind::Git && built.root_in_merge),
                    "git backend accepted a merge with the root commit"
                );
                results.push((c.id().clone(), c.store_commit().clone()));
                written.push((what.to_string(), c.id().clone(), c.store_commit().clone()));
            }
            Err(err) => {
                out = out.class(if kind == BackendKind::Git && built.root_in_merge {
                    "rejected:root_in_merge(git)"
                } else {
                    "rejected:other"
                });
                // Rejected writes are outside the statement: skipped, counted (the
                // histogram shows whether anything but the root-in-merge case is hit).
                let _ = err;
            }
        }
    }

    // Two commits whose returned values differ must have different ids.
    if let [(id_a, ret_a), (id_b, ret_b)] = results.as_slice() {
        if ret_a != ret_b {
            out = out.class("pair:returned_differ");
            ensure!(
                id_a != id_b,
                "{kind:?} backend: two writes returned different commits but the same id {id_a}: fields [{}]",
                diff_commits(ret_a, ret_b)
                    .iter()
                    .map(|(f, d)| format!("{f}: {d}"))
                    .collect::<Vec<_>>()
                    .join("; ")
            );
        } else {
            out = out.class("pair:returned_equal");
        }
        out = out.class_if(
            ret_a.committer.timestamp.timestamp.0.div_euclid(1000)
                != specs[0].1.committer.millis.div_euclid(1000)
                || ret_b.committer.timestamp.timestamp.0.div_euclid(1000)
                    != specs[1].1.committer.millis.div_euclid(1000),
            "committer_timestamp_adjusted_by_backend",
        );
    }

    // Read everything back through a fresh repo object on the same directory.
    let fresh = fresh_store(kind, &settings, &test_repo.repo_path().join("store"))?;
    ensure!(!Arc::ptr_eq(&fresh, &store), "fresh store is not fresh");
    for (what, id, returned) in &written {
        let cached = store
            .get_commit(id)
            .map_err(|e| backend_err("get_commit from the writing store", e))?;
        ensure_eq!(
            **cached.store_commit(),
            **returned,
            "cached commit {what} differs from the returned one"
        );
        let read = fresh
            .backend()
            .read_commit(id)
            .block_on()
            .map_err(|e| backend_err(&format!("read_commit({id}) of {what} in a fresh store"), e))?;
        compare_read_back(kind, what, id, returned, &read)?;
    }

    // Trees, files, symlinks.
    for (model, id) in models.iter().zip(env.tree_pool.iter().skip(1)) {
        compare_trees_recursive(&store, &fresh, RepoPathBuf::root(), id, 0)?;
        let merged = MergedTree::resolved(fresh.clone(), id.clone());
        let back = tm::read_resolved_tree(&merged)
            .map_err(|e| Violation::new(format!("reading tree {id} back: {e}")))?;
        ensure_eq!(back, *model, "tree {id} read back through a fresh store differs from the model");
    }
    out = out.class_if(models.iter().any(|m| !m.is_empty()), "nonempty_tree");
    out.nontrivial = nontrivial;
    Ok(out)
}

pub fn run(report: &mut Report) {
    // Sets the hermetic git environment once, before worker threads exist
    // (later calls from `TestRepo::init` only overwrite equal values).
    testutils::hermetic_git();
    report.set_rule(
        "one fresh Git/Simple repo per case; 0..3 model trees (files incl. raw bytes and exec bits, \
         symlinks incl. unicode targets), 0..3 base commits as parents; commit a and optionally b \
         (same / independent / 1..2 single-field mutations of a: change id, predecessors, description, \
         names, emails, timestamps +-1ms..1s, tz, parents, tree sides, labels): 1..3 parents, resolved \
         or 3/5-sided root trees with labels, 16-byte change ids, unicode/empty descriptions, \
         unicode/empty names and emails, negative and sub-second timestamps, tz in +-23:59. Counted \
         exclusions: NUL in description; '<', '>', newline or the literal JJ_EMPTY_STRING in name/email; \
         newline in labels; root commit inside a merge (git: write must be rejected). Non-trivial: a \
         commit under test was accepted and has a conflicted tree, a sub-second or negative timestamp, \
         or an empty name/email",
    );
    report.assume(
        "conflict labels are passed through ConflictLabels::from_merge first (all-empty labels mean \
         unlabeled, the documented normal form); predecessor ids need not exist; change ids have the \
         backend's change_id_length (16)",
    );
    report.assume(
        "a fresh store = a new backend object (GitBackend::load / SimpleBackend::load on the repo's store \
         directory) inside a new Store with empty caches, in the same process",
    );
    let tier = report.tier;
    report.prop(
        "git",
        tier.pick(600, 50_000),
        || case_strategy(BackendKind::Git),
        check,
    );
    report.prop(
        "simple",
        tier.pick(600, 50_000),
        || case_strategy(BackendKind::Simple),
        check,
    );
}
