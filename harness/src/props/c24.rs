//! C24 Checkout writes the tree and an immediate snapshot sees no change.
//!
//! Stateful, model-based check on a real `TestWorkspace`: a generated sequence of
//! `check_out`s between generated trees (resolved trees over a tiny path alphabet,
//! `MergedTree::merge`s of 3/5/7 variants with labels, re-labelled conflicts) under
//! generated EOL / exec-bit / conflict-marker-style settings. After every checkout:
//!
//! 1. the disk (outside `.jj`) holds exactly the tree's leaf paths: exact bytes
//!    (after the documented EOL model), exec bit and link target for resolved
//!    paths, a regular file for conflicted ones;
//! 2. `snapshot()` right away returns the identical tree ids and labels, and so does
//!    a second snapshot after the mtimes were bumped (which forces jj to re-read
//!    every file instead of trusting the recorded stat data);
//! 3. the disk equals the disk of a brand-new workspace that checks out the same
//!    tree from scratch.

use std::collections::BTreeMap;
use std::path::Path;
use std::time::Duration;
use std::time::SystemTime;

use jj_lib::merged_tree::MergedTree;
use jj_lib::repo::Repo as _;
use pollster::FutureExt as _;
use proptest::prelude::*;
use serde::Deserialize;
use serde::Serialize;
use testutils::TestWorkspace;

use crate::engine::runner::CheckResult;
use crate::engine::runner::Outcome;
use crate::engine::runner::Report;
use crate::engine::runner::Violation;
use crate::ensure;
use crate::ensure_eq;
use crate::gens::content::Bytes;
use crate::model::tree;
use crate::model::wc;
use crate::model::wc::EolMode;
use crate::model::wc::Expect;
use crate::model::wc::Node;
use crate::model::wc::Recipe;
use crate::model::wc::TreeSpec;
use crate::model::wc::WcSettings;

#[derive(Debug, Clone, Serialize, Deserialize)]
pub struct Case {
    pub settings: WcSettings,
    pub pool: Vec<Bytes>,
    pub steps: Vec<TreeSpec>,
}

fn case_strategy(max_steps: usize) -> impl Strategy<Value = Case> {
    (
        wc::wc_settings(),
        wc::content_pool(),
        prop::collection::vec(wc::tree_spec(), 1..=max_steps),
    )
        .prop_map(|(settings, pool, steps)| Case {
            settings,
            pool,
            steps,
        })
}

/// Compares the walked disk with the expectation derived from the tree.
fn compare_disk(
    what: &str,
    disk: &wc::Disk,
    expected: &BTreeMap<String, Expect>,
    settings: &WcSettings,
) -> Result<(), Violation> {
    let leaves = wc::leaves(disk);
    for (path, exp) in expected {
        let Some(node) = leaves.get(path) else {
            return Err(Violation::new(format!(
                "{what}: tree path {path:?} ({exp:?}) is missing on disk; disk has {:?}",
                leaves.keys().collect::<Vec<_>>()
            )));
        };
        match (exp, node) {
            (Expect::File { content, exec }, Node::File { content: dc, exec: de }) => {
                ensure!(
                    content == dc,
                    "{what}: content of {path:?} on disk {:?} != expected {:?} (eol={:?})",
                    bstr::BStr::new(dc),
                    bstr::BStr::new(content),
                    settings.eol
                );
                if settings.exec_respect {
                    ensure!(exec == de, "{what}: exec bit of {path:?} on disk {de} != tree {exec}");
                } else {
                    // exec-bit-change=ignore: the on-disk bit is the previous on-disk
                    // bit of that path or false; nothing here ever sets it.
                    ensure!(!*de, "{what}: {path:?} is executable on disk under exec-bit-change=ignore");
                }
            }
            (Expect::Symlink(target), Node::Symlink(dt)) => {
                ensure!(target == dt, "{what}: symlink {path:?} -> {dt:?}, expected {target:?}");
            }
            (Expect::Conflict { file_conflict, text, .. }, Node::File { content, .. }) => {
                if *file_conflict && *text {
                    match settings.eol {
                        EolMode::InputOutput => {
                            let bare_lf = content
                                .iter()
                                .enumerate()
                                .any(|(i, b)| *b == b'\n' && (i == 0 || content[i - 1] != b'\r'));
                            ensure!(
                                !bare_lf,
                                "{what}: conflict file {path:?} has a bare LF under eol-conversion=input-output: {:?}",
                                bstr::BStr::new(content)
                            );
                        }
                        EolMode::Input => {
                            ensure!(
                                !content.contains(&b'\r'),
                                "{what}: conflict file {path:?} of LF-only sides has a CR under eol-conversion=input: {:?}",
                                bstr::BStr::new(content)
                            );
                        }
                        EolMode::None => {}
                    }
                }
            }
            (exp, node) => {
                return Err(Violation::new(format!(
                    "{what}: {path:?} is {} on disk, expected {exp:?}",
                    node.brief()
                )));
            }
        }
    }
    for (path, node) in &leaves {
        ensure!(
            expected.contains_key(path),
            "{what}: disk has {path:?} ({}) which is not in the tree",
            node.brief()
        );
    }
    Ok(())
}

/// Sets the mtime of every regular file so that the recorded stat data no longer
/// matches and the next snapshot has to re-read the content.
fn bump_mtimes(root: &Path, disk: &wc::Disk, stamp: u64) -> Result<(), Violation> {
    let t = SystemTime::UNIX_EPOCH + Duration::from_secs(stamp);
    for (path, node) in disk {
        if let Node::File { .. } = node {
            let p = root.join(path);
            let f = std::fs::File::options()
                .write(true)
                .open(&p)
                .map_err(|e| Violation::new(format!("harness: cannot open {p:?}: {e}")))?;
            f.set_modified(t)
                .map_err(|e| Violation::new(format!("harness: cannot set mtime of {p:?}: {e}")))?;
        }
    }
    Ok(())
}

fn check_out(ws: &mut TestWorkspace, tree: &MergedTree) -> Result<jj_lib::working_copy::CheckoutStats, String> {
    let commit = testutils::commit_with_tree(ws.repo.store(), tree.clone());
    let op_id = ws.repo.op_id().clone();
    ws.workspace
        .check_out(op_id, None, &commit)
        .block_on()
        .map_err(|e| format!("{e} ({e:?})"))
}

/// A new repository + workspace. The `Simple` backend keeps everything on disk and
/// needs no async runtime (the in-memory test backend spawns a tokio runtime per
/// repository, which dominates the run time here).
fn new_workspace(settings: &jj_lib::settings::UserSettings) -> TestWorkspace {
    TestWorkspace::init_with_backend_and_settings(testutils::TestRepoBackend::Simple, settings)
}

/// Per-step facts for classification.
#[derive(Default)]
struct Facts {
    file_dir_swap: bool,
    conflict_shape_change: bool,
    eol_on_text: bool,
    any_conflict: bool,
    file_conflict: bool,
    other_conflict: bool,
    relabel_same_ids: bool,
    exec_file: bool,
    symlink: bool,
    unsimplified: bool,
    rename_in_dir: bool,
    merge_step: bool,
    merge_resolved: bool,
    merge_assert: bool,
}

fn shape(e: &Expect) -> (u8, usize) {
    match e {
        Expect::File { .. } | Expect::Symlink(_) => (0, 1),
        Expect::Conflict { file_conflict, sides, .. } => (if *file_conflict { 1 } else { 2 }, *sides),
    }
}

fn check(case: &Case) -> CheckResult {
    let settings = case.settings;
    let user_settings = settings.user_settings().map_err(Violation::new)?;
    let mut ws = new_workspace(&user_settings);
    let root = ws.workspace.workspace_root().to_owned();
    let mut sim = wc::Sim::new(&case.pool, settings.eol);
    let mut facts = Facts::default();
    let mut prev_expected: BTreeMap<String, Expect> = BTreeMap::new();
    let mut prev_tree: Option<MergedTree> = None;

    for (i, spec) in case.steps.iter().enumerate() {
        let recipe: Recipe = sim.next(spec);
        let store = ws.repo.store().clone();
        let Some(new_tree) = recipe.build_checked(&store).map_err(Violation::new)? else {
            // jj's own debug assertion fired while merging the trees (C07's
            // subject, reported separately); no tree to check out.
            facts.merge_assert = true;
            break;
        };
        let expected = wc::expected_disk(&new_tree, settings.eol).map_err(Violation::new)?;
        // The entries-based expectation must agree with the pure model for resolved trees.
        if let Some(model) = recipe.is_resolved_recipe() {
            let back = tree::read_resolved_tree(&new_tree).map_err(Violation::new)?;
            ensure_eq!(&back, model, "harness: model tree does not round-trip through the store");
        }

        let stats = check_out(&mut ws, &new_tree)
            .map_err(|e| Violation::new(format!("step {i}: check_out failed: {e}")))?;
        ensure_eq!(
            stats.skipped_files,
            0,
            "step {i}: check_out skipped files although nothing untracked is in the way"
        );
        let disk = wc::walk(&root);
        compare_disk(&format!("step {i} after check_out"), &disk, &expected, &settings)?;

        // Immediate snapshot: identical tree.
        let snap = ws
            .snapshot()
            .map_err(|e| Violation::new(format!("step {i}: snapshot after check_out failed: {e}")))?;
        ensure!(
            snap.tree_ids_and_labels() == new_tree.tree_ids_and_labels(),
            "step {i}: snapshot right after check_out changed the tree: {:?} -> {:?}; spec {spec:?}",
            new_tree.tree_ids_and_labels(),
            snap.tree_ids_and_labels()
        );
        // Same again when jj cannot trust the recorded stat data and re-reads every file.
        bump_mtimes(&root, &disk, 2_000_000_000 + i as u64)?;
        let snap = ws
            .snapshot()
            .map_err(|e| Violation::new(format!("step {i}: re-reading snapshot failed: {e}")))?;
        ensure!(
            snap.tree_ids_and_labels() == new_tree.tree_ids_and_labels(),
            "step {i}: snapshot that re-reads the checked-out files changed the tree: {:?} -> {:?}; spec {spec:?}",
            new_tree.tree_ids_and_labels(),
            snap.tree_ids_and_labels()
        );
        let disk_after = wc::walk(&root);
        ensure!(
            wc::leaves(&disk_after) == wc::leaves(&disk),
            "step {i}: snapshot modified the working-copy files"
        );

        // Switching A -> B must give the same disk as checking out B from scratch.
        if i >= 1 {
            let mut fresh = new_workspace(&user_settings);
            let fresh_root = fresh.workspace.workspace_root().to_owned();
            let fresh_tree = recipe.build(fresh.repo.store()).map_err(Violation::new)?;
            ensure!(
                fresh_tree.tree_ids_and_labels() == new_tree.tree_ids_and_labels(),
                "harness: recipe does not rebuild the same tree in a second store"
            );
            check_out(&mut fresh, &fresh_tree)
                .map_err(|e| Violation::new(format!("step {i}: fresh check_out failed: {e}")))?;
            let fresh_disk = wc::leaves(&wc::walk(&fresh_root));
            let seq_disk = wc::leaves(&disk);
            for (path, node) in &fresh_disk {
                let other = seq_disk.get(path);
                let same = match (node, other) {
                    (Node::File { content, exec }, Some(Node::File { content: c2, exec: e2 })) => {
                        content == c2 && (!settings.exec_respect || exec == e2)
                    }
                    (a, Some(b)) => a == b,
                    (_, None) => false,
                };
                ensure!(
                    same,
                    "step {i}: {path:?} differs between switching ({}) and a fresh checkout ({})",
                    other.map(|n| n.brief()).unwrap_or_else(|| "absent".into()),
                    node.brief()
                );
            }
            for path in seq_disk.keys() {
                ensure!(
                    fresh_disk.contains_key(path),
                    "step {i}: {path:?} exists after switching but not after a fresh checkout"
                );
            }
        }

        // Classification.
        let old_keys: Vec<&String> = prev_expected.keys().collect();
        for p in expected.keys() {
            if old_keys.iter().any(|q| wc::is_below(q, p) || wc::is_below(p, q)) {
                facts.file_dir_swap = true;
            }
        }
        for (p, e) in &expected {
            let new_shape = shape(e);
            let old_shape = prev_expected.get(p).map(shape);
            if (new_shape.0 != 0 || old_shape.is_some_and(|s| s.0 != 0)) && old_shape != Some(new_shape) {
                facts.conflict_shape_change = true;
            }
            match e {
                Expect::File { content, exec } => {
                    facts.exec_file |= *exec;
                    if settings.eol != EolMode::None
                        && !wc::is_binary_small(content)
                        && content.contains(&b'\n')
                    {
                        facts.eol_on_text = true;
                    }
                }
                Expect::Symlink(_) => facts.symlink = true,
                Expect::Conflict { file_conflict, .. } => {
                    facts.any_conflict = true;
                    if *file_conflict {
                        facts.file_conflict = true;
                    } else {
                        facts.other_conflict = true;
                    }
                }
            }
        }
        for (p, e) in &prev_expected {
            if shape(e).0 != 0 && !expected.contains_key(p) {
                facts.conflict_shape_change = true;
            }
        }
        if let Some(prev) = &prev_tree
            && !new_tree.tree_ids().is_resolved()
            && prev.tree_ids() == new_tree.tree_ids()
            && prev.labels() != new_tree.labels()
        {
            facts.relabel_same_ids = true;
        }
        // Unsimplified arity > simplified arity somewhere.
        if !new_tree.tree_ids().is_resolved() {
            for (_, v) in wc::entries_map(&new_tree).map_err(Violation::new)? {
                if !v.is_resolved() && v.clone().simplify().num_sides() < v.num_sides() {
                    facts.unsimplified = true;
                }
            }
        }
        // "remove x/y, add x/z" with x emptied in between.
        for p in prev_expected.keys().filter(|p| !expected.contains_key(*p)) {
            if let Some((dir, _)) = p.rsplit_once('/') {
                let dir_survives_old = prev_expected
                    .keys()
                    .any(|q| q != p && wc::is_below(q, dir) && expected.contains_key(q));
                let added_sibling = expected
                    .keys()
                    .any(|q| wc::is_below(q, dir) && !prev_expected.contains_key(q) && q > p);
                if !dir_survives_old && added_sibling {
                    facts.rename_in_dir = true;
                }
            }
        }
        if matches!(recipe, Recipe::Merged { .. }) {
            facts.merge_step = true;
            if new_tree.tree_ids().is_resolved() {
                facts.merge_resolved = true;
            }
        }
        prev_expected = expected;
        prev_tree = Some(new_tree);
    }

    let sanitized = sim.pool.sanitized.get() > 0;
    let nontrivial = facts.file_dir_swap || facts.conflict_shape_change || facts.eol_on_text;
    Ok(Outcome::new(nontrivial)
        .class_if(facts.file_dir_swap, "file_dir_swap")
        .class_if(facts.conflict_shape_change, "conflict_shape_change")
        .class_if(facts.eol_on_text, "eol_on_text")
        .class_if(facts.any_conflict, "conflict")
        .class_if(facts.file_conflict, "file_conflict")
        .class_if(facts.other_conflict, "non_file_conflict")
        .class_if(facts.unsimplified, "unsimplified_arity_gt_simplified")
        .class_if(facts.relabel_same_ids, "relabel_same_ids")
        .class_if(facts.merge_step, "merge_step")
        .class_if(facts.merge_resolved, "merge_fully_resolved")
        .class_if(facts.merge_assert, "excluded_merge_debug_assert")
        .class_if(facts.exec_file, "exec_file")
        .class_if(facts.symlink, "symlink")
        .class_if(facts.rename_in_dir, "rename_in_emptied_dir")
        .class_if(sanitized, "excluded_stored_crlf")
        .class_if(settings.eol == EolMode::Input, "eol_input")
        .class_if(settings.eol == EolMode::InputOutput, "eol_input_output")
        .class_if(!settings.exec_respect, "exec_ignore")
        .class_if(case.steps.len() >= 5, "steps_ge_5"))
}

pub fn run(report: &mut Report) {
    report.set_rule(
        "case = settings (eol none|input|input-output x exec respect|ignore x 4 marker styles) + 8-content \
         pool (5 related texts, 3 small/odd) + 1..=8 tree specs (edits of an anchor tree over a 14-path \
         alphabet incl. moves, reset, MergedTree::merge of 3/5/7 variants colliding on a focus path with \
         labels, relabel); non-trivial = some consecutive pair of trees differs by a file<->directory \
         replacement or by a conflict whose shape (resolved / file conflict / non-file conflict, number of \
         sides) changes, or EOL conversion is active on a text file with a line ending",
    );
    report.assume(
        "tree construction, MergedTree::merge and reading tree entries back from the store are trusted \
         (C07); the expected disk of a merged tree is derived from its own entries",
    );
    report.assume(
        "under eol-conversion input/input-output every stored content is LF-only or contains a NUL \
         (contents with CR are stripped of CR; counted as class excluded_stored_crlf) - stored CRLF is \
         left to C29; file names are UTF-8 and never `.jj`/`.git`",
    );
    report.assume(
        "the forced re-read (mtimes bumped, then snapshot) stands for the schedule in which the tree-state \
         file and the checked-out files get the same mtime",
    );
    let cases = report.tier.pick(600, 15000);
    let max_steps = 8;
    report.prop("sequence", cases, || case_strategy(max_steps), check);
}
