//! C19 Revset evaluation matches set semantics.
//!
//! A model DAG (with hidden and rewritten commits) is written into a repo; random
//! expression trees are evaluated (a) by the set-theoretic reference evaluator
//! on the model (`model::revset_ref`) and (b) by jj, optimized and unoptimized.

use std::collections::BTreeSet;
use std::sync::Arc;

use futures::TryStreamExt as _;
use jj_lib::backend::CommitId;
use jj_lib::repo::Repo;
use jj_lib::revset::ResolvedRevsetExpression;
use jj_lib::revset::Revset;
use jj_lib::revset::RevsetExpression;
use pollster::FutureExt as _;
use proptest::prelude::*;
use serde::Deserialize;
use serde::Serialize;

use crate::engine::runner::CheckResult;
use crate::engine::runner::Outcome;
use crate::engine::runner::Report;
use crate::engine::runner::Violation;
use crate::ensure;
use crate::ensure_eq;
use crate::model::revset_ref::EvalFlags;
use crate::model::revset_ref::Expr;
use crate::model::revset_ref::Gen;
use crate::model::revset_ref::World;
use crate::model::revset_ref::WorldSpec;
use crate::model::revset_ref::expr_strategy;
use crate::model::revset_ref::world_spec;

#[derive(Debug, Clone, Serialize, Deserialize)]
pub struct Case {
    pub world: WorldSpec,
    pub exprs: Vec<Expr>,
}

/// Evaluates and streams; any error (at evaluation or while streaming) is `Err`.
fn run_jj<'a>(
    repo: &'a dyn Repo,
    expr: &Arc<ResolvedRevsetExpression>,
    optimized: bool,
) -> Result<(Vec<CommitId>, Box<dyn Revset + 'a>), String> {
    let revset = if optimized {
        expr.clone().evaluate(repo)
    } else {
        expr.evaluate_unoptimized(repo)
    }
    .map_err(|e| e.to_string())?;
    let ids: Vec<CommitId> = revset
        .stream()
        .try_collect()
        .block_on()
        .map_err(|e| e.to_string())?;
    Ok((ids, revset))
}

/// Index order as observable through the API: the order in which the set of all
/// indexed commits streams. Returns rank by model index.
fn global_rank(world: &World) -> Result<Vec<usize>, Violation> {
    let all_ids: Vec<CommitId> = (0..world.len()).map(|i| world.id(i)).collect();
    let expr = RevsetExpression::commits(all_ids);
    let (ids, _) = run_jj(world.repo().as_ref(), &expr, true)
        .map_err(|e| Violation::new(format!("evaluating the set of all commits failed: {e}")))?;
    let mut rank = vec![usize::MAX; world.len()];
    for (r, id) in ids.iter().enumerate() {
        let Some(i) = world.index_of(id) else {
            return Err(Violation::new(format!("unknown commit {id} streamed")));
        };
        ensure!(rank[i] == usize::MAX, "commit {i} streamed twice from commits(all)");
        rank[i] = r;
    }
    ensure!(
        rank.iter().all(|r| *r != usize::MAX),
        "commits(all) did not stream every commit: {} of {}",
        ids.len(),
        world.len()
    );
    Ok(rank)
}

fn to_indices(world: &World, ids: &[CommitId], what: &str) -> Result<Vec<usize>, Violation> {
    ids.iter()
        .map(|id| {
            world
                .index_of(id)
                .ok_or_else(|| Violation::new(format!("{what}: unknown commit {id} in result")))
        })
        .collect()
}

/// No duplicates, every commit before its ancestors, subsequence of index order.
fn check_order(world: &World, rank: &[usize], list: &[usize], what: &str) -> Result<(), Violation> {
    let set: BTreeSet<usize> = list.iter().copied().collect();
    ensure!(set.len() == list.len(), "{what}: duplicates in output {list:?}");
    for (k, c) in list.iter().enumerate() {
        for later in &list[k + 1..] {
            ensure!(
                !world.anc[*later].contains(c),
                "{what}: commit {c} is listed before its descendant {later} in {list:?}"
            );
        }
    }
    for w in list.windows(2) {
        ensure!(
            rank[w[0]] < rank[w[1]],
            "{what}: output {list:?} is not in index order (commit {} streams after {} in the \
             enumeration of all commits)",
            w[0],
            w[1]
        );
    }
    Ok(())
}

struct ExprStats {
    nontrivial: bool,
    classes: Vec<&'static str>,
}

fn check_expr(world: &World, rank: &[usize], e: &Expr) -> Result<ExprStats, Violation> {
    let repo = world.repo().as_ref();
    let (reference, flags) = world.eval(e);
    let jj_expr = world.build_expr(e);
    let opt = run_jj(repo, &jj_expr, true);
    let unopt = run_jj(repo, &jj_expr, false);

    let scope = world.top_scope(e);
    let hidden_referenced = scope.referenced.iter().any(|i| world.is_hidden_in_final(*i));
    let mut classes: Vec<&'static str> = vec![];
    if hidden_referenced {
        classes.push("hidden-referenced");
    }
    if e.any(&|x| matches!(x, Expr::WithinVisibility(..))) {
        classes.push("within_visibility");
    }
    if e.any(&|x| matches!(x, Expr::FilterDesc(_) | Expr::FilterMerges)) {
        classes.push("filter");
    }
    if e.any(&|x| {
        matches!(x, Expr::Ancestors(_, g) | Expr::FirstAncestors(_, g) | Expr::Descendants(_, g)
            if !g.is_full() && *g != (Gen { start: 1, len: Some(1) }))
    }) {
        classes.push("generation-range");
    }
    if e.any(&|x| matches!(x, Expr::FirstAncestors(..))) {
        classes.push("first_ancestors");
    }
    if e.any(&|x| matches!(x, Expr::Latest(..))) {
        classes.push("latest");
    }
    if e.any(&|x| matches!(x, Expr::ForkPoint(_) | Expr::MergePoint(_))) {
        classes.push("fork/merge_point");
    }
    if e.any(&|x| matches!(x, Expr::Reachable(..) | Expr::Connected(_) | Expr::DagRange(..))) {
        classes.push("reachable/connected/dag_range");
    }
    if e.depth() >= 3 {
        classes.push("depth>=3");
    }

    let reference = match reference {
        Err(_) => {
            // A has_size node with a wrong count somewhere. The optimizer may drop
            // it (`x & none()`), coalesce() may skip it: only the root position
            // is strict for certain.
            classes.push("has_size-mismatch");
            if let Expr::HasSize(inner, _) = e {
                let mut f = EvalFlags::default();
                if world.eval_in(inner, &scope, &mut f).is_ok() {
                    ensure!(
                        opt.is_err(),
                        "has_size with a wrong count at the root evaluated without error (optimized): {e:?}"
                    );
                    ensure!(
                        unopt.is_err(),
                        "has_size with a wrong count at the root evaluated without error (unoptimized): {e:?}"
                    );
                }
            }
            return Ok(ExprStats {
                nontrivial: false,
                classes,
            });
        }
        Ok(set) => set,
    };

    if flags.ambiguous
        && (opt.is_err() || unopt.is_err())
        && e.any(&|x| matches!(x, Expr::HasSize(..)))
    {
        // The reference picked one of several valid `latest` results; a has_size
        // count derived from it need not fit the result jj picked.
        classes.push("latest-tie-ambiguous");
        classes.push("has_size-after-tie");
        return Ok(ExprStats {
            nontrivial: false,
            classes,
        });
    }
    let (opt_ids, opt_revset) = match opt {
        Ok(v) => v,
        Err(err) => {
            return Err(Violation::new(format!(
                "optimized evaluation failed ({err}) but the reference yields {reference:?}; expr={e:?}"
            )));
        }
    };
    let (unopt_ids, _unopt_revset) = match unopt {
        Ok(v) => v,
        Err(err) => {
            return Err(Violation::new(format!(
                "unoptimized evaluation failed ({err}) but the reference yields {reference:?}; expr={e:?}"
            )));
        }
    };
    let opt_list = to_indices(world, &opt_ids, "optimized")?;
    let unopt_list = to_indices(world, &unopt_ids, "unoptimized")?;
    check_order(world, rank, &opt_list, "optimized")?;
    check_order(world, rank, &unopt_list, "unoptimized")?;
    ensure_eq!(
        opt_list,
        unopt_list,
        "optimized and unoptimized evaluation disagree on {e:?}"
    );
    let opt_set: BTreeSet<usize> = opt_list.iter().copied().collect();

    if flags.ambiguous {
        classes.push("latest-tie-ambiguous");
        // Only a validity predicate, and only where the cut is at the root.
        if let Expr::Latest(inner, n) = e {
            let mut f = EvalFlags::default();
            if let Ok(cands) = world.eval_in(inner, &scope, &mut f)
                && !f.ambiguous
            {
                let n = (*n as usize).min(cands.len());
                ensure!(
                    opt_set.is_subset(&cands) && opt_set.len() == n,
                    "latest({n}) over {cands:?} returned {opt_set:?}"
                );
                let min_in = opt_set.iter().map(|i| world.ts[*i]).min();
                let max_out = cands.difference(&opt_set).map(|i| world.ts[*i]).max();
                if let (Some(a), Some(b)) = (min_in, max_out) {
                    ensure!(
                        a >= b,
                        "latest({n}) over {cands:?} returned {opt_set:?} although a left-out \
                         candidate is newer"
                    );
                }
            }
        }
        return Ok(ExprStats {
            nontrivial: false,
            classes,
        });
    }

    if opt_set != reference {
        let missing: Vec<_> = reference.difference(&opt_set).collect();
        let extra: Vec<_> = opt_set.difference(&reference).collect();
        return Err(Violation::new(format!(
            "revset result differs from set semantics: missing {missing:?}, unexpected {extra:?}; \
             reference={reference:?} jj={opt_list:?} expr={e:?} heads={:?} parents={:?}",
            world.final_heads(),
            world.dag.parents
        )));
    }

    // The other observers of the same evaluated revset.
    let is_empty = opt_revset.is_empty().map_err(|e| Violation::new(format!("is_empty: {e}")))?;
    ensure_eq!(is_empty, reference.is_empty(), "Revset::is_empty on {e:?}");
    let (lo, hi) = opt_revset
        .count_estimate()
        .map_err(|e| Violation::new(format!("count_estimate: {e}")))?;
    ensure!(
        lo <= reference.len() && hi.is_none_or(|hi| reference.len() <= hi),
        "count_estimate ({lo}, {hi:?}) does not bracket {} on {e:?}",
        reference.len()
    );
    let contains = opt_revset.containing_fn();
    for i in 0..world.len() {
        let got = contains(&world.id(i))
            .block_on()
            .map_err(|e| Violation::new(format!("containing_fn: {e}")))?;
        ensure_eq!(got, reference.contains(&i), "containing_fn({i}) on {e:?}");
    }

    if reference.is_empty() {
        classes.push("result-empty");
    } else if reference == scope.all {
        classes.push("result-all");
    } else {
        classes.push("result-proper");
    }
    let nontrivial = (e.depth() >= 3 && !reference.is_empty() && reference != scope.all)
        || hidden_referenced;
    Ok(ExprStats {
        nontrivial,
        classes,
    })
}

/// Structural hashes of the distinct non-trivial (world, expression) pairs seen.
type ExprHashes = std::sync::Mutex<BTreeSet<u64>>;

fn hash_json<T: Serialize>(v: &T) -> u64 {
    use std::hash::Hash as _;
    use std::hash::Hasher as _;
    let mut h = std::collections::hash_map::DefaultHasher::new();
    serde_json::to_string(v).expect("serialise").hash(&mut h);
    h.finish()
}

fn check(case: &Case, seen: &ExprHashes) -> CheckResult {
    let world = World::build_cached(&case.world);
    let world = world.as_ref();
    let rank = global_rank(world)?;
    // Sanity of the observable index order itself: children before parents.
    for i in 0..world.len() {
        for p in &world.dag.parents[i] {
            ensure!(
                rank[i] < rank[*p],
                "commits(all) streams parent {p} before child {i}"
            );
        }
    }
    let mut out = Outcome::new(false);
    let hidden = (0..world.len()).filter(|i| world.is_hidden_in_final(*i)).count();
    out = out
        .class("world")
        .class_if(hidden > 0, "world:hidden-commits")
        .class_if(world.len() > world.n_written, "world:rewritten-commits")
        .class_if(case.world.padding > 0, "world:padding")
        .class_if(case.world.ts_ties, "world:ts-ties")
        .class_if(world.len() > 64, "world:>64-commits");
    let world_hash = hash_json(&case.world);
    let mut nontrivial_hashes = vec![];
    for e in &case.exprs {
        let stats = check_expr(world, &rank, e)?;
        out.nontrivial |= stats.nontrivial;
        out.classes.extend(stats.classes);
        out.classes.push("expr");
        if stats.nontrivial {
            out.classes.push("expr-nontrivial");
            nontrivial_hashes.push(world_hash ^ hash_json(e).rotate_left(17));
        }
    }
    seen.lock().unwrap().extend(nontrivial_hashes);
    Ok(out)
}

pub fn run(report: &mut Report) {
    report.set_rule(
        "case = one model DAG (1..=40 commits, <=4 parents, 40% with 1..=70 padding commits, 0..=2 \
         abandon transactions: descendant-closed (commits become hidden) or partial with \
         rebase_descendants (rewritten copies, tied timestamps); 12% tied committer timestamps) + \
         a list of expression trees (quick 0..=140 per DAG, thorough 0..=700) of depth <=6 over \
         commits/none/all/root/visible_heads/forks, \
         ancestors/first_ancestors/descendants with generation ranges, range, dag_range, connected, \
         reachable, heads, roots, fork_point, merge_point, latest, has_size, coalesce, \
         within_visibility (other view states or arbitrary antichains), present, ~ | & ~, \
         description and parent-count filters; each evaluated by the model reference and by jj \
         optimized+unoptimized. An expression is non-trivial if it has depth>=3 and a result that is \
         neither empty nor all(), or references a hidden commit; a case is non-trivial if one of its \
         expressions is. evaluations/distinct_nontrivial count cases (= DAGs); \
         `expressions`/`distinct_nontrivial_expressions` in the coverage block and the `expr*` \
         classes count single expressions",
    );
    report.assume(
        "the commit store returns the parents/description/timestamps that were written (model is \
         extended with rebase_descendants output read from the store); the view's head set is \
         taken as input; `commits(all ids)` streaming order is taken as the observable index order",
    );
    let cases = report.tier.pick(192, 6_000);
    // lower bound 0 so that a failing list can shrink to the single culprit
    let (lo, hi) = (0usize, report.tier.pick_usize(140, 700));
    let seen: ExprHashes = std::sync::Mutex::new(BTreeSet::new());
    let evaluated = std::sync::atomic::AtomicU64::new(0);
    report.prop(
        "ref-vs-jj",
        cases,
        || {
            // expressions first: they shrink against the memoised world, the
            // (expensive) world shrinks last
            (
                prop::collection::vec(expr_strategy(5), lo..=hi),
                world_spec(40, 70),
            )
                .prop_map(|(exprs, world)| Case { world, exprs })
        },
        |case| {
            let r = check(case, &seen);
            if r.is_ok() {
                evaluated.fetch_add(case.exprs.len() as u64, std::sync::atomic::Ordering::Relaxed);
            }
            r
        },
    );
    if !report.is_replay() {
        report.set_extra(
            "expressions",
            serde_json::json!(evaluated.load(std::sync::atomic::Ordering::Relaxed)),
        );
        report.set_extra(
            "distinct_nontrivial_expressions",
            serde_json::json!(seen.lock().unwrap().len()),
        );
    }
}
