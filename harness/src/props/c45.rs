//! C45 Pushing never overwrites remote changes jj has not seen.
//!
//! Engine `cli`: a bare remote R, a jj clone J (git backend, remote `origin`)
//! and an independent actor that creates/moves/deletes branches in R with
//! `git update-ref` (to commits J has never seen) at any point — in particular
//! between J's fetch and push. For every push and every bookmark the oracle
//! compares R's branch, jj's record `b@origin` and the local bookmark before and
//! after.

use std::collections::BTreeMap;
use std::path::Path;

use proptest::prelude::*;
use serde::Deserialize;
use serde::Serialize;

use crate::engine::cli::CliEnv;
use crate::engine::cli::load_at_op;
use crate::engine::cli::loader_for;
use crate::engine::cli::op_head_ids;
use crate::engine::clihist::Edit;
use crate::engine::clihist::apply_edit;
use crate::engine::clihist::edit;
use crate::engine::clihist::view_state;
use crate::engine::runner::CheckResult;
use crate::engine::runner::Outcome;
use crate::engine::runner::Report;
use crate::engine::runner::Violation;
use crate::engine::runner::pick;

const BOOKMARKS: &[&str] = &["b0", "b1"];
// Never the root commit: its all-zero id is not a git object (a bookmark there is "pushed" as a
// deletion and leaves a dangling refs/remotes entry that breaks the emulated fetch).
const LOCAL_REVS: &[&str] = &[
    "@- ~ root()",
    "@-- ~ root()",
    "latest(remote_bookmarks() ~ root())",
    "latest(heads(all()) ~ @ ~ root())",
    "latest((b0@origin | b1@origin) ~ root())",
    "latest(mine() ~ @ ~ empty() ~ root())",
];

#[derive(Debug, Clone, Copy, Serialize, Deserialize, PartialEq, Eq)]
pub enum PushKind {
    Bookmark,
    All,
    Deleted,
    Tracked,
}

#[derive(Debug, Clone, Serialize, Deserialize)]
pub enum Step {
    Commit(Edit),
    NewOnRoot,
    NewOnRemote,
    BookmarkSet(u8, u16),
    BookmarkDelete(u8),
    Track(u8),
    Fetch,
    Push(PushKind, u8),
    RemoteSet(u8, u16),
    RemoteDelete(u8),
    /// A whole race: commit, point the bookmark at it, optionally fetch, let the
    /// other actor move/delete the remote branch, then push.
    Race { b: u8, pool: u16, fetch_first: bool, remote_deletes: bool, kind: PushKind },
}

#[derive(Debug, Clone, Serialize, Deserialize)]
pub struct Case {
    pub steps: Vec<Step>,
}

fn step_strategy() -> impl Strategy<Value = Step> {
    let b = || 0u8..2;
    prop_oneof![
        4 => edit().prop_map(Step::Commit),
        1 => Just(Step::NewOnRoot),
        1 => Just(Step::NewOnRemote),
        5 => (b(), any::<u16>()).prop_map(|(b, r)| Step::BookmarkSet(b, r)),
        1 => b().prop_map(Step::BookmarkDelete),
        1 => b().prop_map(Step::Track),
        3 => Just(Step::Fetch),
        6 => (
            prop_oneof![
                5 => Just(PushKind::Bookmark),
                2 => Just(PushKind::All),
                1 => Just(PushKind::Deleted),
                1 => Just(PushKind::Tracked)
            ],
            b()
        )
            .prop_map(|(k, b)| Step::Push(k, b)),
        4 => (b(), any::<u16>()).prop_map(|(b, p)| Step::RemoteSet(b, p)),
        1 => b().prop_map(Step::RemoteDelete),
        4 => (b(), any::<u16>(), any::<bool>(), prop::bool::weighted(0.2), prop_oneof![
                4 => Just(PushKind::Bookmark), 1 => Just(PushKind::All), 1 => Just(PushKind::Tracked)])
            .prop_map(|(b, pool, fetch_first, remote_deletes, kind)| Step::Race { b, pool, fetch_first, remote_deletes, kind }),
    ]
}

fn must(out: crate::engine::cli::Output, what: &str) -> Result<crate::engine::cli::Output, Violation> {
    if out.success() {
        Ok(out)
    } else {
        // Infrastructure failure in the set-up: not a property violation.
        eprintln!("C45 set-up step failed ({what}): {}", out.brief());
        println!("INCONCLUSIVE property=C45 set-up failed: {what}");
        std::process::exit(2);
    }
}

fn remote_refs(env: &CliEnv, remote: &Path) -> BTreeMap<String, String> {
    let out = env.git(
        remote,
        &["for-each-ref", "--format=%(refname) %(objectname)", "refs/heads/"],
    );
    out.stdout
        .lines()
        .filter_map(|l| {
            let (name, id) = l.split_once(' ')?;
            Some((name.strip_prefix("refs/heads/")?.to_string(), id.to_string()))
        })
        .collect()
}

#[derive(Debug, Clone, PartialEq, Eq)]
struct JjRefs {
    /// local bookmark: list of terms (None = absent term); empty = no bookmark
    local: BTreeMap<String, Vec<Option<String>>>,
    /// b@origin
    tracking: BTreeMap<String, Vec<Option<String>>>,
}

fn jj_refs(repo_dir: &Path) -> Result<JjRefs, String> {
    let loader = loader_for(repo_dir)?;
    let heads = op_head_ids(repo_dir);
    if heads.len() != 1 {
        return Err(format!("expected one op head, got {heads:?}"));
    }
    let repo = load_at_op(&loader, &heads[0])?;
    let vs = view_state(&repo);
    let mut tracking = BTreeMap::new();
    for (name, (ids, _tracked)) in vs.remote_bookmarks {
        if let Some(b) = name.strip_suffix("@origin") {
            tracking.insert(b.to_string(), ids);
        }
    }
    Ok(JjRefs {
        local: vs.bookmarks,
        tracking,
    })
}

fn normal(v: Option<&Vec<Option<String>>>) -> Option<String> {
    match v.map(|v| v.as_slice()) {
        Some([Some(id)]) => Some(id.clone()),
        _ => None,
    }
}

fn check(case: &Case) -> CheckResult {
    let env = CliEnv::new("c45-");
    let root = env.root.clone();
    let remote = root.join("remote.git");
    must(env.git(&root, &["init", "--bare", "remote.git"]), "git init --bare")?;
    // Third clone: creates the pool of commits J has never seen.
    must(env.git(&root, &["clone", "remote.git", "third"]), "git clone third")?;
    let third = root.join("third");
    let mut pool: Vec<String> = vec![];
    let mk = |name: &str, parent: Option<&str>, pool: &mut Vec<String>| -> Result<(), Violation> {
        if let Some(p) = parent {
            must(env.git(&third, &["checkout", "-q", "--detach", p]), "checkout")?;
        }
        std::fs::write(third.join(format!("pool-{name}")), format!("{name}\n")).unwrap();
        must(env.git(&third, &["add", "."]), "git add")?;
        must(env.git(&third, &["commit", "-q", "-m", &format!("pool {name}")]), "git commit")?;
        let id = must(env.git(&third, &["rev-parse", "HEAD"]), "rev-parse")?.stdout.trim().to_string();
        must(
            env.git(&third, &["push", "-q", "origin", &format!("{id}:refs/pool/{name}")]),
            "git push pool",
        )?;
        pool.push(id);
        Ok(())
    };
    mk("p0", None, &mut pool)?;
    mk("p1", None, &mut pool)?;
    mk("p2", None, &mut pool)?;
    let p0 = pool[0].clone();
    mk("p3", Some(&p0), &mut pool)?;
    // `jj git clone`/`jj git fetch` need git >= 2.41 (`git fetch --porcelain`); this image has
    // git 2.39, so the clone is `jj git init` + `jj git remote add`, and a fetch is emulated by
    // `git fetch` into the backing repository followed by `jj git import` (what jj's fetch amounts to).
    must(env.jj(&root, &["git", "init", "J"]), "jj git init")?;
    let j = root.join("J");
    let remote_str = remote.to_string_lossy().into_owned();
    must(env.jj(&j, &["git", "remote", "add", "origin", &remote_str]), "jj git remote add")?;
    let backing = j.join(".jj").join("repo").join("store").join("git");
    let repo_dir = j.join(".jj").join("repo");

    let mut stale_pushes = 0usize;
    let mut pushes_changed = 0usize;
    let mut refused = 0usize;
    let mut classes: Vec<&'static str> = vec![];
    let mut commit_no = 0usize;
    // Expand composite steps into primitives.
    let mut steps: Vec<Step> = vec![];
    for step in &case.steps {
        match step {
            Step::Race { b, pool, fetch_first, remote_deletes, kind } => {
                steps.push(Step::Commit(Edit::Write(*pool, pool.wrapping_mul(7))));
                steps.push(Step::BookmarkSet(*b, 0));
                if *fetch_first {
                    steps.push(Step::Fetch);
                }
                if *remote_deletes {
                    steps.push(Step::RemoteDelete(*b));
                } else {
                    steps.push(Step::RemoteSet(*b, *pool));
                }
                steps.push(Step::Push(*kind, *b));
            }
            other => steps.push(other.clone()),
        }
    }
    for (step_no, step) in steps.iter().enumerate() {
        match step {
            Step::Race { .. } => unreachable!(),
            Step::Commit(e) => {
                apply_edit(&j, e);
                commit_no += 1;
                env.jj(&j, &["commit", "-m", &format!("local {commit_no}")]);
            }
            Step::NewOnRoot => {
                env.jj(&j, &["new", "root()"]);
            }
            Step::NewOnRemote => {
                env.jj(&j, &["new", "latest(remote_bookmarks())"]);
            }
            Step::BookmarkSet(b, r) => {
                let name = BOOKMARKS[*b as usize % 2];
                let rev = LOCAL_REVS[pick(*r, LOCAL_REVS.len())];
                env.jj(&j, &["bookmark", "set", name, "-r", rev, "--allow-backwards"]);
            }
            Step::BookmarkDelete(b) => {
                env.jj(&j, &["bookmark", "delete", BOOKMARKS[*b as usize % 2]]);
            }
            Step::Track(b) => {
                env.jj(&j, &["bookmark", "track", &format!("{}@origin", BOOKMARKS[*b as usize % 2])]);
            }
            Step::Fetch => {
                must(
                    env.git(
                        &backing,
                        &["fetch", "-q", "--prune", "origin", "+refs/heads/*:refs/remotes/origin/*"],
                    ),
                    "git fetch (emulated jj git fetch)",
                )?;
                let out = env.jj(&j, &["git", "import"]);
                if out.signal.is_some() {
                    return Err(Violation::new(format!("step {step_no}: jj git import died: {}", out.brief())));
                }
            }
            Step::RemoteSet(b, p) => {
                let name = BOOKMARKS[*b as usize % 2];
                let target = &pool[pick(*p, pool.len())];
                must(
                    env.git(&remote, &["update-ref", &format!("refs/heads/{name}"), target]),
                    "update-ref",
                )?;
            }
            Step::RemoteDelete(b) => {
                let name = BOOKMARKS[*b as usize % 2];
                env.git(&remote, &["update-ref", "-d", &format!("refs/heads/{name}")]);
            }
            Step::Push(kind, b) => {
                let name = BOOKMARKS[*b as usize % 2];
                // Snapshot first so that the refs we read are what the push sees.
                env.jj(&j, &["status"]);
                let r_before = remote_refs(&env, &remote);
                let jj_before = jj_refs(&repo_dir).map_err(Violation::new)?;
                let mut args: Vec<&str> = vec!["git", "push", "--allow-empty-description"];
                match kind {
                    PushKind::Bookmark => {
                        args.push("--bookmark");
                        args.push(name);
                    }
                    PushKind::All => args.push("--all"),
                    PushKind::Deleted => args.push("--deleted"),
                    PushKind::Tracked => args.push("--tracked"),
                }
                let out = env.jj(&j, &args);
                if out.signal.is_some() {
                    return Err(Violation::new(format!("step {step_no}: jj git push died: {}", out.brief())));
                }
                let r_after = remote_refs(&env, &remote);
                let jj_after = jj_refs(&repo_dir).map_err(Violation::new)?;
                let what = format!(
                    "step {step_no}: `jj {}` (exit {:?}, stderr {:?})",
                    args.join(" "),
                    out.code,
                    out.stderr.chars().take(300).collect::<String>()
                );
                for bname in BOOKMARKS {
                    let rb = r_before.get(*bname).cloned();
                    let ra = r_after.get(*bname).cloned();
                    let tb = jj_before.tracking.get(*bname).cloned().unwrap_or_default();
                    let ta = jj_after.tracking.get(*bname).cloned().unwrap_or_default();
                    let tb_n = normal(Some(&tb));
                    let ta_n = normal(Some(&ta));
                    let lb = jj_before.local.get(*bname).cloned().unwrap_or_default();
                    let la = jj_after.local.get(*bname).cloned().unwrap_or_default();
                    if la != lb {
                        return Err(Violation::new(format!(
                            "{what}: push changed the local bookmark {bname}: {lb:?} -> {la:?}"
                        )));
                    }
                    let wants_update = normal(Some(&lb)) != tb_n || (lb.is_empty() && tb_n.is_some());
                    if rb != tb_n && wants_update {
                        stale_pushes += 1;
                    }
                    if ra != rb {
                        // The remote branch was created, moved or deleted by this push.
                        pushes_changed += 1;
                        if rb != tb_n {
                            return Err(Violation::new(format!(
                                "{what}: the push changed remote branch {bname} from {rb:?} to {ra:?} although \
                                 jj's last recorded position {bname}@origin was {tb:?} (remote had moved unseen)"
                            )));
                        }
                        if ta_n != ra {
                            return Err(Violation::new(format!(
                                "{what}: after a successful push remote branch {bname} is {ra:?} but \
                                 {bname}@origin records {ta:?}"
                            )));
                        }
                        let pushed = normal(Some(&lb));
                        if ra != pushed {
                            return Err(Violation::new(format!(
                                "{what}: remote branch {bname} became {ra:?}, but the local bookmark is {lb:?}"
                            )));
                        }
                    } else {
                        // Remote unchanged: jj's record must be unchanged too (or have become
                        // equal to the remote's actual position for an up-to-date no-op push).
                        // Degenerate case outside the statement: a bookmark on the root commit
                        // (all-zero id) is "pushed" as a deletion of a non-existent ref; jj reports
                        // success and records the root id. Nothing was overwritten; not judged.
                        let pushed_root = normal(Some(&lb)).is_some_and(|id| id.bytes().all(|c| c == b'0'));
                        if pushed_root && ta_n == normal(Some(&lb)) {
                            classes.push("pushed-root-commit-bookmark(not judged)");
                            continue;
                        }
                        if ta != tb && ta_n != ra {
                            return Err(Violation::new(format!(
                                "{what}: remote branch {bname} was not changed by the push (still {ra:?}) but \
                                 jj's record {bname}@origin changed from {tb:?} to {ta:?}"
                            )));
                        }
                        if wants_update && rb != tb_n {
                            refused += 1;
                        }
                    }
                }
                match kind {
                    PushKind::All => classes.push("push--all"),
                    PushKind::Deleted => classes.push("push--deleted"),
                    PushKind::Tracked => classes.push("push--tracked"),
                    PushKind::Bookmark => classes.push("push--bookmark"),
                }
            }
        }
    }
    classes.sort();
    classes.dedup();
    let mut out = Outcome::new(stale_pushes >= 1);
    for c in classes {
        out = out.class(c);
    }
    Ok(out
        .class_if(pushes_changed >= 1, "push-changed-remote")
        .class_if(refused >= 1, "stale-push-left-remote-unchanged")
        .class_if(stale_pushes >= 2, "stale-pushes>=2"))
}

pub fn run(report: &mut Report) {
    report.set_rule(
        "histories of 12-24 steps over a bare remote R, a jj clone J and an independent actor: local commits, \
         bookmark set (forward/sideways/backward)/delete/track, jj git fetch, jj git push --bookmark|--all|--deleted|\
         --tracked, and `git update-ref`/`-d` in R to commits J has never seen, at any point incl. between fetch and \
         push. Non-trivial = a push was attempted for a bookmark whose remote position differs from jj's record \
         (stale lease); distinct by history",
    );
    report.assume("no interleaving inside a single `git push`; git's compare-and-swap is trusted");
    let tier = report.tier;
    report.prop(
        "histories",
        tier.pick(20, 1000),
        || prop::collection::vec(step_strategy(), 12..24).prop_map(|steps| Case { steps }),
        check,
    );
}
