//! C35 Quoted symbols and strings survive the expression languages.
//!
//! The revset and fileset parsers are private modules; they are reached through
//! the public re-exports `revset::{parse_program, parse, parse_symbol}` and
//! `fileset::parse`. `revset_parser::is_identifier` is private and not
//! re-exported: it is observed as `format_symbol(s) == s`.

use std::collections::HashMap;
use std::path::PathBuf;

use jj_cli::template_parser;
use jj_lib::dsl_util;
use jj_lib::fileset;
use jj_lib::fileset::FilePattern;
use jj_lib::fileset::FilesetAliasesMap;
use jj_lib::fileset::FilesetDiagnostics;
use jj_lib::fileset::FilesetExpression;
use jj_lib::fileset::FilesetParseContext;
use jj_lib::ref_name::RefName;
use jj_lib::ref_name::RemoteName;
use jj_lib::ref_name::RemoteRefSymbol;
use jj_lib::repo_path::RepoPathUiConverter;
use jj_lib::revset;
use jj_lib::revset::ExpressionKind;
use jj_lib::revset::RevsetAliasesMap;
use jj_lib::revset::RevsetCommitRef;
use jj_lib::revset::RevsetDiagnostics;
use jj_lib::revset::RevsetExpression;
use jj_lib::revset::RevsetExtensions;
use jj_lib::revset::RevsetParseContext;
use proptest::prelude::*;
use serde::Deserialize;
use serde::Serialize;

use crate::engine::runner::CheckResult;
use crate::engine::runner::Outcome;
use crate::engine::runner::Report;
use crate::engine::runner::Violation;
use crate::engine::runner::pick;
use crate::ensure;
use crate::ensure_eq;
use crate::model::fspath as m;

// ---------------------------------------------------------------------------
// Case types

#[derive(Debug, Clone, Serialize, Deserialize)]
pub struct StrCase {
    pub s: String,
}

#[derive(Debug, Clone, Serialize, Deserialize)]
pub struct RemoteCase {
    pub name: String,
    pub remote: String,
}

/// One piece of a double-quoted literal as written in source text.
#[derive(Debug, Clone, Serialize, Deserialize)]
pub enum LitPart {
    /// Verbatim characters (never `"` or `\`).
    Text(String),
    Quote,
    Backslash,
    Tab,
    Cr,
    Lf,
    Nul,
    Esc,
    /// `\xHH` with HH < 0x80; `upper` spells the hex digits in upper case.
    Hex(u8, bool),
}

#[derive(Debug, Clone, Serialize, Deserialize)]
pub struct LiteralCase {
    pub parts: Vec<LitPart>,
}

// ---------------------------------------------------------------------------
// Generators

const WHITESPACE: &[char] = &[' ', '\t', '\n', '\r', '\x0c', '\x0b', '\u{a0}', '\u{2028}', '\u{3000}', '\u{feff}'];
const OPERATORS: &[char] = &[
    '|', '&', '~', '(', ')', '-', '+', '.', ':', ',', '\'', '*', '/', '_', '#', '$', '%', '^', '=',
    '<', '>', '[', ']', '{', '}', '?', '!', ';', '`',
];
const LETTERS: &[char] = &[
    'é', 'ß', 'Ω', '日', '本', 'ا', '𝒳', '𐐷', 'ǅ', 'ª', '٣', '·', '\u{200d}', '\u{301}', '\u{1F600}',
    '€', '\u{10FFFF}', '\u{fffd}', '\u{e000}',
];

fn from_table(table: &'static [char]) -> impl Strategy<Value = char> {
    any::<u16>().prop_map(move |r| table[pick(r, table.len())])
}

fn any_char() -> impl Strategy<Value = char> {
    prop_oneof![
        3 => Just('"'),
        3 => Just('\\'),
        3 => (0u8..0x20).prop_map(char::from),
        1 => Just('\x7f'),
        2 => (0x80u8..0xa0).prop_map(char::from),
        2 => Just('@'),
        2 => from_table(WHITESPACE),
        4 => from_table(OPERATORS),
        6 => "[a-zA-Z0-9]".prop_map(|s| s.chars().next().unwrap()),
        3 => from_table(LETTERS),
        1 => any::<char>(),
    ]
}

/// Tokens that look like the source form of escapes, so that escaping an
/// already escaped-looking string is exercised.
const TOKENS: &[&str] = &[
    "\\x7f", "\\e", "\\n", "\\t", "\\0", "\\\"", "\\\\", "\\x", "\\x1", "x7f", "\"\"", "''", "@",
    "a@b", "::", "..", "--", "++", "root-file:", "all()", " ", "refs/heads/", "\u{1b}[0m",
];

fn free_string() -> impl Strategy<Value = String> {
    let piece = prop_oneof![
        12 => any_char().prop_map(|c| c.to_string()),
        1 => any::<u16>().prop_map(|r| TOKENS[pick(r, TOKENS.len())].to_string()),
    ];
    prop_oneof![
        3 => prop::collection::vec(piece.clone(), 0..=6),
        2 => prop::collection::vec(piece, 0..=40),
    ]
    .prop_map(|pieces| pieces.concat())
}

const ID_PARTS: &[&str] = &["a", "b1", "foo", "x_y", "a/b", "*", "_", "é", "日本", "0", "𝒳", "v1", "e\u{301}", "·"];
const ID_SEPS: &[&str] = &[".", "-", "+", "--", "---", "..", "++", "-+", "+-", ".-", "@", "", " "];

/// Identifier-shaped strings: identifier parts joined by the separators the
/// revset identifier rule allows (or nearly allows), optionally with a
/// separator in front or at the end.
fn identifier_like() -> impl Strategy<Value = String> {
    let part = any::<u16>().prop_map(|r| ID_PARTS[pick(r, ID_PARTS.len())]);
    let sep = prop_oneof![
        8 => any::<u16>().prop_map(|r| ID_SEPS[pick(r, 4)]),
        2 => any::<u16>().prop_map(|r| ID_SEPS[pick(r, ID_SEPS.len())]),
    ];
    (
        prop::collection::vec((part, sep.clone()), 1..=4),
        prop::option::weighted(0.25, sep.clone()),
        prop::option::weighted(0.6, Just(())),
    )
        .prop_map(|(pairs, lead, drop_tail)| {
            let mut s = String::new();
            if let Some(lead) = lead {
                s.push_str(lead);
            }
            let n = pairs.len();
            for (i, (p, sep)) in pairs.into_iter().enumerate() {
                s.push_str(p);
                if i + 1 < n || drop_tail.is_none() {
                    s.push_str(sep);
                }
            }
            s
        })
}

fn symbol_string() -> impl Strategy<Value = String> {
    prop_oneof![3 => free_string(), 2 => identifier_like()]
}

fn str_case() -> impl Strategy<Value = StrCase> {
    symbol_string().prop_map(|s| StrCase { s })
}

/// Plain identifiers (`main`, `v1.0`, `feature/x-y`), the everyday case.
fn clean_identifier() -> impl Strategy<Value = String> {
    let part = any::<u16>().prop_map(|r| ID_PARTS[pick(r, ID_PARTS.len())]);
    let sep = any::<u16>().prop_map(|r| ID_SEPS[pick(r, 4)]);
    (part.clone(), prop::collection::vec((sep, part), 0..=3)).prop_map(|(first, more)| {
        let mut s = first.to_string();
        for (sep, p) in more {
            s.push_str(sep);
            s.push_str(p);
        }
        s
    })
}

fn remote_case() -> impl Strategy<Value = RemoteCase> {
    let part = || prop_oneof![3 => symbol_string(), 2 => clean_identifier()];
    (part(), part()).prop_map(|(name, remote)| RemoteCase { name, remote })
}

fn lit_part() -> impl Strategy<Value = LitPart> {
    let text_char = any_char().prop_map(|c| if c == '"' || c == '\\' { 'q' } else { c });
    prop_oneof![
        6 => prop::collection::vec(text_char, 1..=4)
            .prop_map(|cs| LitPart::Text(cs.into_iter().collect())),
        1 => Just(LitPart::Quote),
        1 => Just(LitPart::Backslash),
        1 => Just(LitPart::Tab),
        1 => Just(LitPart::Cr),
        1 => Just(LitPart::Lf),
        1 => Just(LitPart::Nul),
        2 => Just(LitPart::Esc),
        4 => (0u8..0x80, any::<bool>()).prop_map(|(b, up)| LitPart::Hex(b, up)),
    ]
}

fn literal_case() -> impl Strategy<Value = LiteralCase> {
    prop::collection::vec(lit_part(), 0..=10).prop_map(|parts| LiteralCase { parts })
}

// ---------------------------------------------------------------------------
// Parsers under test, behind small adapters

fn with_revset_context<T>(f: impl FnOnce(&RevsetParseContext) -> T) -> T {
    let aliases_map = RevsetAliasesMap::new();
    let fileset_aliases_map = FilesetAliasesMap::new();
    let extensions = RevsetExtensions::default();
    let now = chrono::DateTime::parse_from_rfc3339("2026-01-01T00:00:00+00:00").unwrap();
    let context = RevsetParseContext {
        aliases_map: &aliases_map,
        local_variables: HashMap::new(),
        user_email: "verif@example.com",
        date_pattern_context: now.into(),
        default_ignored_remote: Some(RemoteName::new("git")),
        fileset_aliases_map: &fileset_aliases_map,
        extensions: &extensions,
        workspace: None,
    };
    f(&context)
}

/// What the text means to the revset language.
#[derive(Debug, Clone, PartialEq, Eq)]
enum RevsetMeaning {
    Symbol(String),
    RemoteSymbol { name: String, remote: String },
    Other(String),
    Error(String),
}

fn revset_meaning(text: &str) -> RevsetMeaning {
    with_revset_context(|context| {
        let mut diagnostics = RevsetDiagnostics::new();
        match revset::parse(&mut diagnostics, text, context) {
            Err(err) => RevsetMeaning::Error(err.to_string()),
            Ok(expr) => match &*expr {
                RevsetExpression::CommitRef(RevsetCommitRef::Symbol(s)) => {
                    RevsetMeaning::Symbol(s.clone())
                }
                RevsetExpression::CommitRef(RevsetCommitRef::RemoteSymbol(sym)) => {
                    RevsetMeaning::RemoteSymbol {
                        name: sym.name.as_str().to_string(),
                        remote: sym.remote.as_str().to_string(),
                    }
                }
                other => RevsetMeaning::Other(format!("{other:?}")),
            },
        }
    })
}

/// AST-level view (`parse_program`), distinguishing bare identifiers from
/// quoted strings.
#[derive(Debug, Clone, PartialEq, Eq)]
enum RevsetNode {
    Identifier(String),
    String(String),
    RemoteSymbol { name: String, remote: String },
    Other(String),
    Error(String),
}

fn revset_node(text: &str) -> RevsetNode {
    match revset::parse_program(text) {
        Err(err) => RevsetNode::Error(err.to_string()),
        Ok(node) => match &node.kind {
            ExpressionKind::Identifier(s) => RevsetNode::Identifier((*s).to_string()),
            ExpressionKind::String(s) => RevsetNode::String(s.clone()),
            ExpressionKind::RemoteSymbol(sym) => RevsetNode::RemoteSymbol {
                name: sym.name.as_str().to_string(),
                remote: sym.remote.as_str().to_string(),
            },
            other => RevsetNode::Other(format!("{other:?}")),
        },
    }
}

fn template_string(text: &str) -> Result<String, String> {
    match template_parser::parse_template(text) {
        Err(err) => Err(format!("error: {err}")),
        Ok(node) => match node.kind {
            template_parser::ExpressionKind::String(s) => Ok(s),
            other => Err(format!("not a string literal: {other:?}")),
        },
    }
}

const WS_BASE: &str = "/ws";
const WS_CWD: &str = "/ws/sub";

/// Path named by the fileset pattern `<kind>:<literal>`.
fn fileset_path(kind: &str, literal: &str) -> Result<String, String> {
    let aliases_map = FilesetAliasesMap::new();
    let path_converter = RepoPathUiConverter::Fs {
        cwd: PathBuf::from(WS_CWD),
        base: PathBuf::from(WS_BASE),
    };
    let context = FilesetParseContext {
        aliases_map: &aliases_map,
        path_converter: &path_converter,
    };
    let text = format!("{kind}:{literal}");
    let mut diagnostics = FilesetDiagnostics::new();
    match fileset::parse(&mut diagnostics, &text, &context) {
        Err(err) => Err(format!("error: {err}")),
        Ok(FilesetExpression::Pattern(FilePattern::FilePath(path))) => {
            Ok(path.as_internal_file_string().to_string())
        }
        Ok(other) => Err(format!("not a file path pattern: {other:?}")),
    }
}

/// What a path string may become (lexical model of C32).
enum PathExpect {
    /// Must be accepted with exactly this repo path.
    Must(String),
    /// May be rejected; if accepted it must be this path.
    May(String),
    /// Must be rejected.
    Reject,
}

fn expect_root_relative(s: &str) -> PathExpect {
    let bytes = s.as_bytes();
    let comps = m::split_components(bytes);
    if m::is_absolute(bytes) || comps.iter().any(|c| c == b"..") {
        return PathExpect::Reject;
    }
    let joined = m::lossy(&m::join_components(false, &comps));
    if s.split('/').next() == Some(".") {
        PathExpect::May(joined)
    } else {
        PathExpect::Must(joined)
    }
}

fn expect_cwd_relative(s: &str) -> PathExpect {
    let joined = m::join(WS_CWD.as_bytes(), s.as_bytes());
    let norm = m::normalize(&joined);
    let base = vec![b"ws".to_vec()];
    match m::strip_base(&norm.rest, &base) {
        Some(rest) => {
            let path = m::lossy(&m::join_components(false, rest));
            if norm.unresolved_parents > 0 {
                PathExpect::May(path)
            } else {
                PathExpect::Must(path)
            }
        }
        None => PathExpect::Reject,
    }
}

fn check_fileset_path(kind: &str, literal: &str, s: &str, expect: PathExpect) -> Result<bool, Violation> {
    let got = fileset_path(kind, literal);
    match (expect, got) {
        (PathExpect::Must(want), got) => {
            ensure!(
                got.as_ref() == Ok(&want),
                "fileset {kind}:{literal} (string {s:?}) gives {got:?}, expected path {want:?}"
            );
            Ok(true)
        }
        (PathExpect::May(want), Ok(path)) => {
            ensure_eq!(path, want, "fileset {kind}:{literal} (string {s:?}) gives a different path");
            Ok(true)
        }
        (PathExpect::May(_), Err(_)) => Ok(false),
        (PathExpect::Reject, Ok(path)) => Err(Violation::new(format!(
            "fileset {kind}:{literal} (string {s:?}) accepted as path {path:?}"
        ))),
        (PathExpect::Reject, Err(_)) => Ok(false),
    }
}

// ---------------------------------------------------------------------------
// Checks

fn needs_escape(s: &str) -> bool {
    s.chars().any(|c| c == '"' || c == '\\' || c.is_ascii_control())
}

/// All three languages must read `literal` (source text of a string literal)
/// as the string `s`.
fn check_literal_means(literal: &str, s: &str) -> Result<bool, Violation> {
    // revset
    ensure_eq!(
        revset_node(literal),
        RevsetNode::String(s.to_string()),
        "revset parse_program({literal:?})"
    );
    ensure_eq!(
        revset_meaning(literal),
        RevsetMeaning::Symbol(s.to_string()),
        "revset::parse({literal:?})"
    );
    let sym = revset::parse_symbol(literal);
    if s.is_empty() {
        ensure!(sym.is_err(), "parse_symbol({literal:?}) accepted the empty string");
    } else {
        ensure!(
            sym.as_deref().ok() == Some(s),
            "revset parse_symbol({literal:?}) = {sym:?}, expected {s:?}"
        );
    }
    // template
    let t = template_string(literal);
    ensure!(
        t.as_deref() == Ok(s),
        "template parse_template({literal:?}) = {t:?}, expected string {s:?}"
    );
    // fileset
    let a = check_fileset_path("root-file", literal, s, expect_root_relative(s))?;
    let b = check_fileset_path("cwd-file", literal, s, expect_cwd_relative(s))?;
    Ok(a || b)
}

fn check_str(case: &StrCase) -> CheckResult {
    let s = &case.s;
    let q = format!("\"{}\"", dsl_util::escape_string(s));
    ensure_eq!(revset::format_string(s), q, "format_string vs quoted escape_string");
    ensure!(
        !dsl_util::escape_string(s).chars().any(|c| c.is_ascii_control()),
        "escape_string({s:?}) left an ASCII control character in the output"
    );
    let path_ok = check_literal_means(&q, s)?;

    // Symbols: bare if jj says it is an identifier, quoted otherwise.
    let f = revset::format_symbol(s);
    let is_identifier = f == *s;
    if !is_identifier {
        ensure_eq!(f, q, "format_symbol({s:?}) is neither the bare text nor the quoted string");
    }
    let expected_node = if is_identifier {
        RevsetNode::Identifier(s.clone())
    } else {
        RevsetNode::String(s.clone())
    };
    ensure_eq!(revset_node(&f), expected_node, "parse_program(format_symbol({s:?}) = {f:?})");
    ensure_eq!(
        revset_meaning(&f),
        RevsetMeaning::Symbol(s.clone()),
        "revset::parse(format_symbol({s:?}) = {f:?})"
    );
    if !s.is_empty() {
        let sym = revset::parse_symbol(&f);
        ensure!(
            sym.as_deref().ok() == Some(s.as_str()),
            "parse_symbol(format_symbol({s:?}) = {f:?}) = {sym:?}"
        );
    }
    ensure_eq!(
        RefName::new(s).as_symbol().to_string(),
        f,
        "RefName::as_symbol() display vs format_symbol"
    );

    Ok(Outcome::new(needs_escape(s) || !is_identifier)
        .class_if(is_identifier, "str:identifier")
        .class_if(is_identifier && s.contains(['-', '+', '.']), "str:identifier-with-separator")
        .class_if(!is_identifier && !needs_escape(s), "str:quoted-no-escape")
        .class_if(needs_escape(s), "str:needs-escape")
        .class_if(s.chars().any(|c| c.is_ascii_control() && !"\t\r\n\0".contains(c)), "str:hex-escaped-control")
        .class_if(s.chars().any(|c| ('\u{80}'..'\u{a0}').contains(&c)), "str:c1-control")
        .class_if(s.contains('@'), "str:contains-at")
        .class_if(s.chars().any(|c| c as u32 > 0xffff), "str:non-bmp")
        .class_if(s.ends_with(['-', '+', '.']) || s.starts_with(['-', '+', '.']), "str:edge-separator")
        .class_if(path_ok, "str:fileset-path-accepted")
        .class_if(s.chars().count() > 20, "str:len>20"))
}

fn check_remote(case: &RemoteCase) -> CheckResult {
    let RemoteCase { name, remote } = case;
    let t = revset::format_remote_symbol(name, remote);
    let expected_parts = format!("{}@{}", revset::format_symbol(name), revset::format_symbol(remote));
    ensure_eq!(t, expected_parts, "format_remote_symbol is not format_symbol@format_symbol");
    ensure_eq!(
        revset_node(&t),
        RevsetNode::RemoteSymbol {
            name: name.clone(),
            remote: remote.clone()
        },
        "parse_program(format_remote_symbol({name:?}, {remote:?}) = {t:?})"
    );
    ensure_eq!(
        revset_meaning(&t),
        RevsetMeaning::RemoteSymbol {
            name: name.clone(),
            remote: remote.clone()
        },
        "revset::parse(format_remote_symbol({name:?}, {remote:?}) = {t:?})"
    );
    let symbol = RemoteRefSymbol {
        name: RefName::new(name),
        remote: RemoteName::new(remote),
    };
    ensure_eq!(symbol.to_string(), t, "RemoteRefSymbol display vs format_remote_symbol");
    let name_id = revset::format_symbol(name) == *name;
    let remote_id = revset::format_symbol(remote) == *remote;
    Ok(Outcome::new(!name_id || !remote_id || needs_escape(name) || needs_escape(remote))
        .class_if(name_id && remote_id, "remote:both-bare")
        .class_if(name_id != remote_id, "remote:one-quoted")
        .class_if(!name_id && !remote_id, "remote:both-quoted")
        .class_if(name.contains('@') || remote.contains('@'), "remote:at-inside")
        .class_if(name.is_empty() || remote.is_empty(), "remote:empty-part"))
}

fn literal_source_and_value(parts: &[LitPart]) -> (String, String) {
    let mut src = String::from("\"");
    let mut val = String::new();
    for p in parts {
        match p {
            LitPart::Text(t) => {
                src.push_str(t);
                val.push_str(t);
            }
            LitPart::Quote => {
                src.push_str("\\\"");
                val.push('"');
            }
            LitPart::Backslash => {
                src.push_str("\\\\");
                val.push('\\');
            }
            LitPart::Tab => {
                src.push_str("\\t");
                val.push('\u{9}');
            }
            LitPart::Cr => {
                src.push_str("\\r");
                val.push('\u{d}');
            }
            LitPart::Lf => {
                src.push_str("\\n");
                val.push('\u{a}');
            }
            LitPart::Nul => {
                src.push_str("\\0");
                val.push('\u{0}');
            }
            LitPart::Esc => {
                src.push_str("\\e");
                val.push('\u{1b}');
            }
            LitPart::Hex(b, upper) => {
                if *upper {
                    src.push_str(&format!("\\x{b:02X}"));
                } else {
                    src.push_str(&format!("\\x{b:02x}"));
                }
                val.push(char::from_u32(u32::from(*b)).unwrap());
            }
        }
    }
    src.push('"');
    (src, val)
}

fn check_literal(case: &LiteralCase) -> CheckResult {
    let (src, val) = literal_source_and_value(&case.parts);
    check_literal_means(&src, &val)?;
    // Single-quoted form: no escapes at all.
    let raw_ok = !val.contains('\'');
    if raw_ok {
        let raw = format!("'{val}'");
        check_literal_means(&raw, &val)?;
    }
    // What was read can be written again by jj and read back.
    let q = revset::format_string(&val);
    ensure_eq!(
        revset_node(&q),
        RevsetNode::String(val.clone()),
        "re-escaped literal {q:?}"
    );
    let escapes = case.parts.iter().filter(|p| !matches!(p, LitPart::Text(_))).count();
    Ok(Outcome::new(escapes > 0)
        .class_if(case.parts.iter().any(|p| matches!(p, LitPart::Esc)), "lit:\\e")
        .class_if(case.parts.iter().any(|p| matches!(p, LitPart::Hex(..))), "lit:\\xHH")
        .class_if(case.parts.iter().any(|p| matches!(p, LitPart::Hex(_, true))), "lit:\\xHH-uppercase")
        .class_if(raw_ok, "lit:raw-form-checked"))
}

pub fn run(report: &mut Report) {
    report.set_rule(
        "str: unicode strings of 0-40 pieces weighted to '\"', '\\', C0/C1 controls, DEL, '@', \
         whitespace, operator characters, non-BMP, escape look-alikes ('\\x7f', '\\e'), and \
         identifier-shaped strings (identifier parts joined by '.', '-', '--', '+', ... with \
         optional leading/trailing separator); each is escaped by jj and read back by the revset \
         (AST and lowered), template and fileset (root-file:/cwd-file:) parsers, and formatted as a \
         symbol. remote: two such strings through format_remote_symbol. lit: literals written from \
         pieces (text, every documented escape incl. \\e and \\xHH<0x80, both hex cases) decoded by \
         an independent table, plus the single-quoted form. Non-trivial = the string needs escaping \
         or is not an identifier (lit: contains an escape); distinct by whole case.",
    );
    report.assume(
        "is_identifier is observed as format_symbol(s) == s; fileset literals are compared through \
         the lexical path model of C32 (a path literal is a path, so 'a//b' and 'a/b' are the same \
         value; absolute paths and '..' must be rejected by root-file:); \\xHH with HH >= 0x80 is \
         not asserted (the docs call it a byte).",
    );
    let tier = report.tier;
    report.prop("str", tier.pick(40_000, 3_000_000), str_case, check_str);
    report.prop("remote", tier.pick(20_000, 1_500_000), remote_case, check_remote);
    report.prop("lit", tier.pick(20_000, 1_500_000), literal_case, check_literal);
}
