//! C41 Undo and restore return the repository to the earlier state.
//!
//! Engine `cli`: generated single-workspace histories of real `jj` commands
//! with `undo`, `redo`, `op restore <earlier op>` and `op revert @` at random
//! points. The harness records the view after every operation it observes and
//! compares against (1) the recorded view for `op restore`, (2) a text-editor
//! reference model (list of states + cursor) for undo/redo, (3) the parent's
//! view for `op revert @`.

use std::collections::BTreeMap;
use std::collections::BTreeSet;

use jj_lib::object_id::ObjectId as _;
use jj_lib::repo::Repo as _;
use pollster::FutureExt as _;
use proptest::prelude::*;
use serde::Deserialize;
use serde::Serialize;

use crate::engine::cli::load_at_op;
use crate::engine::cli::loader_for;
use crate::engine::cli::op_head_ids;
use crate::engine::clihist::Edit;
use crate::engine::clihist::ViewState;
use crate::engine::clihist::apply_edit;
use crate::engine::clihist::edit;
use crate::engine::clihist::view_state;
use crate::engine::runner::CheckResult;
use crate::engine::runner::Outcome;
use crate::engine::runner::Report;
use crate::engine::runner::Violation;
use crate::engine::runner::pick;
use crate::props::c40::Cmd;
use crate::props::c40::World;

#[derive(Debug, Clone, Serialize, Deserialize)]
pub enum Step {
    Edit(Edit),
    Cmd(Cmd),
    Undo,
    Redo,
    OpRestore(u16),
    OpRevertHead,
}

#[derive(Debug, Clone, Serialize, Deserialize)]
pub struct Case {
    pub steps: Vec<Step>,
}

fn normal_cmd() -> impl Strategy<Value = Cmd> {
    prop_oneof![
        3 => Just(Cmd::New),
        2 => any::<u16>().prop_map(Cmd::NewRev),
        2 => any::<u16>().prop_map(Cmd::EditRev),
        2 => any::<u16>().prop_map(Cmd::Describe),
        3 => Just(Cmd::Commit),
        2 => Just(Cmd::Squash),
        1 => any::<u16>().prop_map(Cmd::Split),
        2 => any::<u16>().prop_map(Cmd::Abandon),
        2 => (any::<u16>(), any::<u16>()).prop_map(|(a, b)| Cmd::Rebase(a, b)),
        1 => any::<u16>().prop_map(Cmd::RestoreFrom),
        2 => any::<u16>().prop_map(Cmd::BookmarkSet),
        1 => Just(Cmd::Status),
    ]
}

fn step_strategy() -> impl Strategy<Value = Step> {
    prop_oneof![
        4 => edit().prop_map(Step::Edit),
        6 => normal_cmd().prop_map(Step::Cmd),
        6 => Just(Step::Undo),
        3 => Just(Step::Redo),
        2 => any::<u16>().prop_map(Step::OpRestore),
        1 => Just(Step::OpRevertHead),
    ]
}

/// Views equal, or differing only by the permitted "new empty commit on top of
/// an immutable restored working-copy commit".
fn views_match(world: &World, actual: &ViewState, expected: &ViewState) -> Result<bool, String> {
    if actual == expected {
        return Ok(true);
    }
    if actual.bookmarks != expected.bookmarks
        || actual.tags != expected.tags
        || actual.remote_bookmarks != expected.remote_bookmarks
        || actual.wc.keys().ne(expected.wc.keys())
    {
        return Ok(false);
    }
    let loader = loader_for(&world.repo_dir)?;
    let store = loader.store().clone();
    let mut heads = expected.heads.clone();
    for (ws, actual_wc) in &actual.wc {
        let expected_wc = &expected.wc[ws];
        if actual_wc == expected_wc {
            continue;
        }
        // Permitted only if actual_wc is an empty child of expected_wc.
        let id = jj_lib::backend::CommitId::try_from_hex(actual_wc).ok_or("bad id")?;
        let commit = store.get_commit(&id).map_err(|e| e.to_string())?;
        let parents: Vec<String> = commit.parent_ids().iter().map(|p| p.hex()).collect();
        if parents != vec![expected_wc.clone()] {
            return Ok(false);
        }
        let parent = store
            .get_commit(&commit.parent_ids()[0])
            .map_err(|e| e.to_string())?;
        if commit.tree_ids() != parent.tree_ids() {
            return Ok(false);
        }
        heads.remove(expected_wc);
        heads.insert(actual_wc.clone());
    }
    Ok(heads == actual.heads)
}

/// Records the operations created since the last call (oldest first).
fn observe(
    repo_dir: &std::path::Path,
    loader: &jj_lib::repo::RepoLoader,
    views: &mut BTreeMap<String, ViewState>,
    parents_of: &mut BTreeMap<String, Vec<String>>,
    seen: &mut BTreeSet<String>,
) -> Result<Vec<String>, String> {
    let heads = op_head_ids(repo_dir);
    if heads.len() != 1 {
        return Err(format!("expected one op head, found {heads:?}"));
    }
    let mut chain = vec![];
    let mut cur = heads[0].clone();
    loop {
        if seen.contains(&cur) {
            break;
        }
        let id = jj_lib::op_store::OperationId::try_from_hex(&cur).ok_or("bad op id")?;
        let parents: Vec<String> = if &id == loader.op_store().root_operation_id() {
            vec![]
        } else {
            let op = loader
                .op_store()
                .read_operation(&id)
                .block_on()
                .map_err(|e| e.to_string())?;
            op.parents.iter().map(|p| p.hex()).collect()
        };
        let repo = load_at_op(loader, &cur)?;
        views.insert(cur.clone(), view_state(&repo));
        parents_of.insert(cur.clone(), parents.clone());
        chain.push(cur.clone());
        match parents.as_slice() {
            [] => break,
            [p] => cur = p.clone(),
            _ => return Err(format!("unexpected merge operation {cur}")),
        }
    }
    chain.reverse();
    for id in &chain {
        seen.insert(id.clone());
    }
    Ok(chain)
}

fn check(case: &Case) -> CheckResult {
    let mut world = World::new("c41-")?;
    let ws = world.ws_dirs[0].clone();
    let repo_dir = world.repo_dir.clone();
    let loader = loader_for(&world.repo_dir).map_err(Violation::new)?;
    // view recorded per operation id
    let mut views: BTreeMap<String, ViewState> = BTreeMap::new();
    let mut parents_of: BTreeMap<String, Vec<String>> = BTreeMap::new();
    // text-editor model
    let mut list: Vec<ViewState> = vec![];
    let mut cursor: usize;
    let mut seen: BTreeSet<String> = BTreeSet::new();

    // Initial operations (root op, workspace init) are normal entries.
    let initial = observe(&repo_dir, &loader, &mut views, &mut parents_of, &mut seen).map_err(Violation::new)?;
    for id in &initial {
        list.push(views[id].clone());
    }
    cursor = list.len() - 1;
    let mut all_ops: Vec<String> = initial.clone();

    let mut consecutive_undos = 0usize;
    let mut max_consecutive_undos = 0usize;
    let mut redo_after_undo = false;
    let mut jump_over = false;
    let mut last_was_undo = false;
    let mut op_since_undo = false;
    let mut undo_at_bottom = false;
    let mut restores = 0usize;
    let mut undo_with_snapshot = false;

    for (step_no, step) in case.steps.iter().enumerate() {
        let (args, kind): (Vec<String>, u8) = match step {
            Step::Edit(e) => {
                apply_edit(&ws, e);
                continue;
            }
            Step::Cmd(cmd) => (world.args_for(0, cmd, step_no), 0),
            Step::Undo => (vec!["undo".into()], 1),
            Step::Redo => (vec!["redo".into()], 2),
            Step::OpRestore(raw) => {
                let target = all_ops[pick(*raw, all_ops.len())].clone();
                (vec!["op".into(), "restore".into(), target], 3)
            }
            Step::OpRevertHead => (vec!["op".into(), "revert".into(), "@".into()], 4),
        };
        let head_before = op_head_ids(&world.repo_dir).first().cloned().unwrap_or_default();
        let out = world.run(0, &args);
        if out.signal.is_some() {
            return Err(Violation::new(format!(
                "step {step_no}: `jj {}` died: {}",
                args.join(" "),
                out.brief()
            )));
        }
        let new_ops = observe(&repo_dir, &loader, &mut views, &mut parents_of, &mut seen).map_err(|e| {
            Violation::new(format!("step {step_no}: `jj {}`: {e}", args.join(" ")))
        })?;
        all_ops.extend(new_ops.iter().cloned());
        let what = format!("step {step_no}: `jj {}` (exit {:?})", args.join(" "), out.code);
        // All new operations except the last one of a successful special command are
        // ordinary operations (snapshots).
        let special_ok = kind != 0 && out.success() && !new_ops.is_empty();
        let n_normal = if special_ok { new_ops.len() - 1 } else { new_ops.len() };
        for id in &new_ops[..n_normal] {
            list.truncate(cursor + 1);
            list.push(views[id].clone());
            cursor = list.len() - 1;
            op_since_undo = true;
        }
        if kind != 0 && n_normal > 0 && (kind == 1 || kind == 2) {
            undo_with_snapshot = true;
        }
        match kind {
            0 => {
                if !new_ops.is_empty() {
                    consecutive_undos = 0;
                    last_was_undo = false;
                }
            }
            1 => {
                if cursor == 0 {
                    undo_at_bottom = true;
                    // nothing to undo in the model: no claim either way
                    if special_ok {
                        // jj found something to undo that the model does not know: resync
                        let id = new_ops.last().unwrap();
                        list.truncate(cursor + 1);
                        list.push(views[id].clone());
                        cursor = list.len() - 1;
                    }
                    continue;
                }
                if out.success() && new_ops.is_empty() {
                    // "Nothing changed.": the state to restore equals the current one, jj records
                    // no operation (so its undo stack does not advance either). Sound only if the
                    // two model states really are equal.
                    if !views_match(&world, &list[cursor], &list[cursor - 1]).map_err(Violation::new)? {
                        return Err(Violation::new(format!(
                            "{what}: undo reported success without creating an operation although the \
                             state before the undone operation differs from the current one"
                        )));
                    }
                    continue;
                }
                if !special_ok {
                    return Err(Violation::new(format!(
                        "{what}: undo failed although there is an operation to undo: {}",
                        out.stderr.chars().take(300).collect::<String>()
                    )));
                }
                cursor -= 1;
                let actual = &views[new_ops.last().unwrap()];
                if !views_match(&world, actual, &list[cursor]).map_err(Violation::new)? {
                    return Err(Violation::new(format!(
                        "{what}: view after undo differs from the state before the undone operation \
                         (text-editor model, cursor {cursor} of {}): actual={actual:?} expected={:?}",
                        list.len(),
                        list[cursor]
                    )));
                }
                consecutive_undos += 1;
                max_consecutive_undos = max_consecutive_undos.max(consecutive_undos);
                if last_was_undo && op_since_undo {
                    // undo - op - undo
                    jump_over = true;
                }
                last_was_undo = true;
                op_since_undo = false;
            }
            2 => {
                if cursor + 1 >= list.len() {
                    if special_ok {
                        return Err(Violation::new(format!(
                            "{what}: redo succeeded although nothing was undone (text-editor model \
                             cursor at the end)"
                        )));
                    }
                    continue;
                }
                if out.success() && new_ops.is_empty() {
                    if !views_match(&world, &list[cursor], &list[cursor + 1]).map_err(Violation::new)? {
                        return Err(Violation::new(format!(
                            "{what}: redo reported success without creating an operation although the \
                             undone state differs from the current one"
                        )));
                    }
                    continue;
                }
                if !special_ok {
                    return Err(Violation::new(format!(
                        "{what}: redo failed although an undone state exists: {}",
                        out.stderr.chars().take(300).collect::<String>()
                    )));
                }
                cursor += 1;
                let actual = &views[new_ops.last().unwrap()];
                if !views_match(&world, actual, &list[cursor]).map_err(Violation::new)? {
                    return Err(Violation::new(format!(
                        "{what}: view after redo differs from the undone state (cursor {cursor}): \
                         actual={actual:?} expected={:?}",
                        list[cursor]
                    )));
                }
                redo_after_undo = true;
                consecutive_undos = 0;
            }
            3 => {
                if !special_ok {
                    continue;
                }
                let target = &args[2];
                let actual = &views[new_ops.last().unwrap()];
                let expected = &views[target];
                if !views_match(&world, actual, expected).map_err(Violation::new)? {
                    return Err(Violation::new(format!(
                        "{what}: view after `op restore` differs from the view recorded for the target \
                         operation: actual={actual:?} expected={expected:?}"
                    )));
                }
                restores += 1;
                list.truncate(cursor + 1);
                list.push(actual.clone());
                cursor = list.len() - 1;
                consecutive_undos = 0;
                last_was_undo = false;
            }
            _ => {
                if !special_ok {
                    continue;
                }
                let actual = &views[new_ops.last().unwrap()];
                // Only claimed when no snapshot was interposed: the reverted
                // operation is then the head the command saw.
                if n_normal == 0
                    && let Some([parent]) = parents_of.get(&head_before).map(|p| p.as_slice())
                {
                    let expected = &views[parent];
                    if !views_match(&world, actual, expected).map_err(Violation::new)? {
                        return Err(Violation::new(format!(
                            "{what}: view after `op revert @` differs from the view before the reverted \
                             head operation: actual={actual:?} expected={expected:?}"
                        )));
                    }
                    restores += 1;
                }
                list.truncate(cursor + 1);
                list.push(actual.clone());
                cursor = list.len() - 1;
                consecutive_undos = 0;
                last_was_undo = false;
            }
        }
    }
    let nontrivial = max_consecutive_undos >= 2 || jump_over || redo_after_undo;
    Ok(Outcome::new(nontrivial)
        .class_if(max_consecutive_undos >= 2, "consecutive-undos>=2")
        .class_if(max_consecutive_undos >= 4, "consecutive-undos>=4")
        .class_if(jump_over, "undo-op-undo")
        .class_if(redo_after_undo, "redo-after-undo")
        .class_if(undo_at_bottom, "undo-at-bottom")
        .class_if(restores > 0, "op-restore/revert-checked")
        .class_if(undo_with_snapshot, "undo/redo-with-interposed-snapshot"))
}

pub fn run(report: &mut Report) {
    report.set_rule(
        "single-workspace histories of 10-26 steps: file edits, real jj commands (new, edit, describe, commit, \
         squash, split, abandon, rebase, restore, bookmark set) and undo / redo / op restore <earlier op> / op \
         revert @ at random points; the view (heads, bookmarks, tags, remote bookmarks, wc commits) is recorded \
         after every operation; undo/redo are compared with a text-editor model (list of states + cursor), op \
         restore with the recorded view. Non-trivial = >=2 consecutive undos, undo-op-undo, or redo after undo",
    );
    report.assume("undo with nothing to undo in the model (cursor at the first state) is not judged");
    let tier = report.tier;
    report.prop(
        "histories",
        tier.pick(24, 1500),
        || prop::collection::vec(step_strategy(), 10..26).prop_map(|steps| Case { steps }),
        check,
    );
}
