//! C14 The operation-head store never loses a published operation.
//!
//! Engine `sched`: publishers and reconcilers are futures on one thread; the
//! schedule (which actor runs to its next read/add/remove/lock step, and where
//! an actor is killed) is the generated or exhaustively enumerated input.

use std::cell::RefCell;
use std::collections::BTreeSet;
use std::path::Path;
use std::path::PathBuf;
use std::rc::Rc;
use std::sync::Arc;

use jj_lib::config::ConfigLayer;
use jj_lib::config::ConfigSource;
use jj_lib::object_id::ObjectId as _;
use jj_lib::op_store::OpStore;
use jj_lib::op_store::OperationId;
use jj_lib::repo::ReadonlyRepo;
use jj_lib::repo::Repo as _;
use jj_lib::repo::RepoLoader;
use jj_lib::settings::UserSettings;
use jj_lib::verif_hooks;
use pollster::FutureExt as _;
use proptest::prelude::*;
use serde::Deserialize;
use serde::Serialize;
use testutils::TestRepo;
use testutils::TestRepoBackend;

use crate::engine::runner::CheckResult;
use crate::engine::runner::Outcome;
use crate::engine::runner::Report;
use crate::engine::runner::Violation;
use crate::engine::runner::pick;
use crate::engine::sched::Actor;
use crate::engine::sched::Step;

#[derive(Debug, Clone, Serialize, Deserialize, PartialEq, Eq)]
pub enum ActorSpec {
    /// Publishes `ops` operations. `stale`: the first transaction starts from
    /// the operation loaded before the run's set-up operations (a stale head);
    /// otherwise from `load_at_head`. `reload`: later transactions reload at
    /// head instead of continuing from the repo the previous publish returned.
    Publisher { ops: u8, stale: bool, reload: bool },
    /// Calls `load_at_head` `times` times (resolve_op_heads + merge).
    Reconciler { times: u8 },
}

#[derive(Debug, Clone, Serialize, Deserialize)]
pub struct Case {
    /// Number of divergent operations published (without merging) at set-up: the
    /// store starts with max(1, n) heads.
    pub initial_heads: u8,
    pub actors: Vec<ActorSpec>,
    pub lock_disabled: bool,
    pub max_crashes: u8,
    /// Decisions: at each decision point the options are
    /// [run actor i (live, not blocked)..., crash actor j (started, live)...].
    pub choices: Vec<u16>,
    /// `true`: `choices[i]` is the option index itself (enumerated schedules);
    /// `false`: it is a raw number mapped monotonically onto the options.
    pub exact: bool,
    #[serde(skip)]
    pub precomputed: Option<Arc<(CheckResult, Vec<usize>)>>,
}

fn settings() -> UserSettings {
    let mut config = testutils::base_user_config();
    config.add_layer(
        ConfigLayer::parse(
            ConfigSource::User,
            r#"
            debug.commit-timestamp = "2001-02-03T04:05:06+07:00"
            debug.operation-timestamp = "2001-02-03T04:05:07+07:00"
            "#,
        )
        .unwrap(),
    );
    UserSettings::from_config(config).unwrap()
}

fn list_heads(repo_path: &Path) -> Result<Vec<OperationId>, String> {
    let dir = repo_path.join("op_heads").join("heads");
    let mut heads = vec![];
    for entry in std::fs::read_dir(&dir).map_err(|e| format!("read_dir {dir:?}: {e}"))? {
        let name = entry.map_err(|e| e.to_string())?.file_name();
        let name = name.to_string_lossy();
        if let Some(bytes) = jj_lib::hex_util::decode_hex(&*name) {
            heads.push(OperationId::new(bytes));
        }
    }
    heads.sort();
    Ok(heads)
}

fn op_ancestors(
    op_store: &Arc<dyn OpStore>,
    heads: &[OperationId],
) -> Result<BTreeSet<OperationId>, String> {
    let mut seen = BTreeSet::new();
    let mut stack: Vec<OperationId> = heads.to_vec();
    while let Some(id) = stack.pop() {
        if !seen.insert(id.clone()) {
            continue;
        }
        if &id == op_store.root_operation_id() {
            continue;
        }
        let op = op_store
            .read_operation(&id)
            .block_on()
            .map_err(|e| format!("listed/ancestor operation {} unreadable: {e}", id.hex()))?;
        stack.extend(op.parents.iter().cloned());
    }
    Ok(seen)
}

struct Monitor {
    repo_path: PathBuf,
    op_store: Arc<dyn OpStore>,
    /// Operations whose `publish()` completed.
    published: Rc<RefCell<Vec<OperationId>>>,
    /// Operations ever observed as a listed head.
    ever_listed: BTreeSet<OperationId>,
    max_heads: usize,
}

impl Monitor {
    fn check(&mut self, when: &str) -> Result<(), Violation> {
        let heads = list_heads(&self.repo_path).map_err(Violation::new)?;
        if heads.is_empty() {
            return Err(Violation::new(format!(
                "{when}: the op-heads directory lists no head operation"
            )));
        }
        self.max_heads = self.max_heads.max(heads.len());
        self.ever_listed.extend(heads.iter().cloned());
        let reach = op_ancestors(&self.op_store, &heads).map_err(Violation::new)?;
        for id in self
            .published
            .borrow()
            .iter()
            .chain(self.ever_listed.iter())
        {
            if !reach.contains(id) {
                return Err(Violation::new(format!(
                    "{when}: published operation {} is not reachable from the listed heads {:?}",
                    &id.hex()[..12],
                    heads.iter().map(|h| h.hex()[..12].to_string()).collect::<Vec<_>>()
                )));
            }
        }
        Ok(())
    }
}

async fn publish_one(
    repo: Arc<ReadonlyRepo>,
    label: String,
    published: Rc<RefCell<Vec<OperationId>>>,
) -> Result<Arc<ReadonlyRepo>, String> {
    let mut tx = repo.start_transaction();
    let root = tx.repo().store().root_commit_id().clone();
    let tree = tx.repo().store().empty_merged_tree();
    tx.repo_mut()
        .new_commit(vec![root], tree)
        .set_description(label.clone())
        .write()
        .await
        .map_err(|e| format!("write commit: {e}"))?;
    let unpublished = tx
        .write(label.clone())
        .await
        .map_err(|e| format!("tx.write: {e}"))?;
    let op_id = unpublished.operation().id().clone();
    let repo = unpublished
        .publish()
        .await
        .map_err(|e| format!("publish of {label}: {e:?}"))?;
    published.borrow_mut().push(op_id);
    Ok(repo)
}

async fn run_actor(
    k: usize,
    spec: ActorSpec,
    loader: RepoLoader,
    stale_repo: Arc<ReadonlyRepo>,
    published: Rc<RefCell<Vec<OperationId>>>,
) -> Result<(), String> {
    match spec {
        ActorSpec::Publisher { ops, stale, reload } => {
            let mut repo = if stale {
                stale_repo
            } else {
                loader
                    .load_at_head()
                    .await
                    .map_err(|e| format!("actor {k} load_at_head: {e:?}"))?
            };
            for j in 0..ops {
                if j > 0 && reload {
                    repo = loader
                        .load_at_head()
                        .await
                        .map_err(|e| format!("actor {k} load_at_head: {e:?}"))?;
                }
                repo = publish_one(repo, format!("actor{k}-op{j}"), published.clone()).await?;
            }
            Ok(())
        }
        ActorSpec::Reconciler { times } => {
            for _ in 0..times {
                loader
                    .load_at_head()
                    .await
                    .map_err(|e| format!("actor {k} load_at_head: {e:?}"))?;
            }
            Ok(())
        }
    }
}

/// Executes one schedule. Returns the check result and, per decision point, the
/// number of options that were available (for the exhaustive enumerator).
pub fn execute(case: &Case) -> (CheckResult, Vec<usize>) {
    let mut option_counts = vec![];
    let result = crate::engine::runner::catch(|| execute_inner(case, &mut option_counts));
    verif_hooks::set_lock_disabled(false);
    verif_hooks::set_scheduler_attached(false);
    (result, option_counts)
}

fn execute_inner(case: &Case, option_counts: &mut Vec<usize>) -> CheckResult {
    let settings = settings();
    let test_repo = TestRepo::init_with_backend_and_settings(TestRepoBackend::Simple, &settings);
    let repo_path = test_repo.repo_path().to_path_buf();
    let repo0 = test_repo.repo.clone();
    let loader = repo0.loader().clone();
    let published: Rc<RefCell<Vec<OperationId>>> = Rc::new(RefCell::new(vec![]));
    // Set-up: `initial_heads` divergent operations from the same base.
    for d in 0..case.initial_heads {
        publish_one(repo0.clone(), format!("setup{d}"), published.clone())
            .block_on()
            .map_err(Violation::new)?;
    }
    let mut monitor = Monitor {
        repo_path: repo_path.clone(),
        op_store: loader.op_store().clone(),
        published: published.clone(),
        ever_listed: BTreeSet::new(),
        max_heads: 0,
    };
    monitor.check("after set-up")?;

    verif_hooks::set_lock_disabled(case.lock_disabled);
    let mut actors: Vec<Actor<'_, Result<(), String>>> = case
        .actors
        .iter()
        .enumerate()
        .map(|(k, spec)| {
            Actor::new(run_actor(
                k,
                spec.clone(),
                loader.clone(),
                repo0.clone(),
                published.clone(),
            ))
        })
        .collect();

    let mut crashes_left = case.max_crashes;
    let mut choice_iter = case.choices.iter().copied();
    let mut steps = 0usize;
    let mut interleaved_update = false;
    let mut crashed_mid = false;
    let mut in_update: Vec<bool> = vec![false; actors.len()];
    loop {
        #[derive(Clone, Copy)]
        enum Opt {
            Run(usize),
            Crash(usize),
        }
        let mut options: Vec<Opt> = actors
            .iter()
            .enumerate()
            .filter(|(_, a)| a.is_live() && !a.blocked)
            .map(|(k, _)| Opt::Run(k))
            .collect();
        if options.is_empty() {
            if actors.iter().any(|a| a.is_live()) {
                // Everybody spins on a lock: nobody can hold it (a holder is
                // never blocked), so let them retry.
                for a in &mut actors {
                    a.blocked = false;
                }
                options = actors
                    .iter()
                    .enumerate()
                    .filter(|(_, a)| a.is_live())
                    .map(|(k, _)| Opt::Run(k))
                    .collect();
            } else {
                break;
            }
        }
        if crashes_left > 0 {
            options.extend(
                actors
                    .iter()
                    .enumerate()
                    .filter(|(_, a)| a.is_live() && a.started)
                    .map(|(k, _)| Opt::Crash(k)),
            );
        }
        let idx = match choice_iter.next() {
            Some(raw) if case.exact => (raw as usize).min(options.len() - 1),
            Some(raw) => pick(raw, options.len()),
            None => 0,
        };
        option_counts.push(options.len());
        steps += 1;
        if steps > 5000 {
            eprintln!("C14: schedule did not terminate within 5000 steps");
            println!("INCONCLUSIVE property=C14 schedule did not terminate");
            std::process::exit(2);
        }
        match options[idx] {
            Opt::Run(k) => {
                match actors[k].step() {
                    Ok(Step::Yielded(label)) => {
                        // Progress by actor k (other than a failed lock attempt)
                        // may unblock the others.
                        if !actors[k].blocked {
                            for (j, a) in actors.iter_mut().enumerate() {
                                if j != k {
                                    a.blocked = false;
                                }
                            }
                        }
                        // Non-triviality bookkeeping: an actor suspended at
                        // "op_heads.remove" has added its head but not yet
                        // removed the old ones.
                        in_update[k] = label == "op_heads.remove";
                        if in_update.iter().enumerate().any(|(j, u)| *u && j != k) {
                            interleaved_update = true;
                        }
                    }
                    Ok(Step::Done(())) => {
                        in_update[k] = false;
                        for (j, a) in actors.iter_mut().enumerate() {
                            if j != k {
                                a.blocked = false;
                            }
                        }
                        if let Some(Err(msg)) = &actors[k].result {
                            return Err(Violation::new(format!(
                                "actor {k} ({:?}) failed: {msg}",
                                case.actors[k]
                            )));
                        }
                    }
                    Err(msg) => {
                        println!("INCONCLUSIVE property=C14 {msg}");
                        std::process::exit(2);
                    }
                }
            }
            Opt::Crash(k) => {
                crashes_left -= 1;
                if in_update[k] {
                    crashed_mid = true;
                }
                in_update[k] = false;
                actors[k].crash();
                for a in &mut actors {
                    a.blocked = false;
                }
            }
        }
        monitor.check(&format!("after step {steps}"))?;
    }
    drop(actors);
    verif_hooks::set_lock_disabled(false);
    verif_hooks::set_scheduler_attached(false);

    // Quiescence: load until the head set is stable.
    let mut last = list_heads(&repo_path).map_err(Violation::new)?;
    for _ in 0..4 {
        loader
            .load_at_head()
            .block_on()
            .map_err(|e| Violation::new(format!("load_at_head after quiescence failed: {e:?}")))?;
        monitor.check("after quiescent load")?;
        let now = list_heads(&repo_path).map_err(Violation::new)?;
        if now == last {
            break;
        }
        last = now;
    }
    if last.len() != 1 {
        return Err(Violation::new(format!(
            "after quiescence and load_at_head there are {} heads, expected exactly one",
            last.len()
        )));
    }
    let reach = op_ancestors(loader.op_store(), &last).map_err(Violation::new)?;
    for id in published.borrow().iter() {
        if !reach.contains(id) {
            return Err(Violation::new(format!(
                "final head does not descend from published operation {}",
                &id.hex()[..12]
            )));
        }
    }
    let nontrivial = monitor.max_heads >= 2 || interleaved_update;
    Ok(Outcome::new(nontrivial)
        .class_if(monitor.max_heads >= 2, "two-heads-coexisted")
        .class_if(monitor.max_heads >= 3, "three-heads-coexisted")
        .class_if(interleaved_update, "interleaved-inside-update")
        .class_if(crashed_mid, "crash-inside-update")
        .class_if(case.lock_disabled, "lock-disabled")
        .class_if(case.max_crashes > 0 && crashes_left < case.max_crashes, "crash"))
}

fn check(case: &Case) -> CheckResult {
    if let Some(pre) = &case.precomputed {
        return pre.0.clone();
    }
    execute(case).0
}

/// Stateless depth-first enumeration of every schedule (and crash placement)
/// of a configuration.
fn enumerate_all(template: &Case, limit: usize) -> (Vec<Case>, bool) {
    let mut out = vec![];
    let mut prefix: Vec<u16> = vec![];
    loop {
        let mut case = template.clone();
        case.exact = true;
        case.choices = prefix.clone();
        let (result, counts) = execute(&case);
        // The executed schedule is prefix followed by zeros.
        let mut full: Vec<u16> = prefix.clone();
        full.resize(counts.len(), 0);
        case.choices = full.clone();
        let failed = result.is_err();
        case.precomputed = Some(Arc::new((result, counts.clone())));
        out.push(case);
        if failed || out.len() >= limit {
            return (out, false);
        }
        // Backtrack: find the last position whose choice can be incremented.
        let mut pos = full.len();
        loop {
            if pos == 0 {
                return (out, true);
            }
            pos -= 1;
            if (full[pos] as usize) + 1 < counts[pos] {
                full[pos] += 1;
                full.truncate(pos + 1);
                prefix = full;
                break;
            }
        }
    }
}

fn small_configs() -> Vec<Case> {
    let p = |stale| ActorSpec::Publisher {
        ops: 1,
        stale,
        reload: false,
    };
    let r = ActorSpec::Reconciler { times: 1 };
    let mut out = vec![];
    for lock_disabled in [false, true] {
        for max_crashes in [0u8, 1] {
            for (initial_heads, actors) in [
                (0u8, vec![p(true), p(true)]),
                (1, vec![p(true), p(false)]),
                (2, vec![p(true), r.clone()]),
                (2, vec![r.clone(), r.clone()]),
                (2, vec![p(false), r.clone()]),
            ] {
                out.push(Case {
                    initial_heads,
                    actors,
                    lock_disabled,
                    max_crashes,
                    choices: vec![],
                    exact: true,
                    precomputed: None,
                });
            }
        }
    }
    out
}

fn thorough_configs() -> Vec<Case> {
    let mut out = small_configs();
    let p2 = |stale, reload| ActorSpec::Publisher {
        ops: 2,
        stale,
        reload,
    };
    for lock_disabled in [false, true] {
        for (initial_heads, actors) in [
            (0u8, vec![p2(true, false), p2(true, true)]),
            (2, vec![p2(false, true), ActorSpec::Reconciler { times: 2 }]),
        ] {
            out.push(Case {
                initial_heads,
                actors,
                lock_disabled,
                max_crashes: 0,
                choices: vec![],
                exact: true,
                precomputed: None,
            });
        }
    }
    out
}

fn actor_spec() -> impl Strategy<Value = ActorSpec> {
    prop_oneof![
        3 => (1u8..=2, any::<bool>(), any::<bool>())
            .prop_map(|(ops, stale, reload)| ActorSpec::Publisher { ops, stale, reload }),
        2 => (1u8..=2).prop_map(|times| ActorSpec::Reconciler { times }),
    ]
}

fn sampled_case() -> impl Strategy<Value = Case> {
    (
        0u8..=3,
        prop::collection::vec(actor_spec(), 2..=3),
        any::<bool>(),
        0u8..=2,
        prop::collection::vec(any::<u16>(), 0..60),
    )
        .prop_map(
            |(initial_heads, actors, lock_disabled, max_crashes, choices)| Case {
                initial_heads,
                actors,
                lock_disabled,
                max_crashes,
                choices,
                exact: false,
                precomputed: None,
            },
        )
}

pub fn run(report: &mut Report) {
    report.set_level("fault_enumeration");
    report.set_rule(
        "actors = publishers (transaction on a possibly stale base, write, publish) and reconcilers \
         (load_at_head) as futures on one thread over a Simple-backend repo; the schedule chooses which \
         actor runs to its next op-heads read/add/remove/lock step and where an actor is killed (future \
         dropped). Small 2-actor configurations: EVERY schedule and every single-crash placement \
         enumerated by stateless DFS, with working and disabled locks; larger ones sampled by proptest. \
         Monitor after every step reads the heads directory directly. Non-trivial = two heads coexisted \
         or another actor ran inside someone's add..remove window; distinct by configuration+schedule",
    );
    report.assume("directory listing is one atomic step (the quantifier's read/add/remove steps)");
    report.assume("Simple commit backend: synchronous file I/O, so every suspension is a jj yield point");
    let tier = report.tier;
    let configs = match tier {
        crate::engine::runner::Tier::Quick => small_configs(),
        crate::engine::runner::Tier::Thorough => thorough_configs(),
    };
    let limit = tier.pick_usize(6000, 400_000);
    let mut complete_cases: Vec<Case> = vec![];
    let mut partial_cases: Vec<Case> = vec![];
    if !report.is_replay() {
        let results: Vec<(Vec<Case>, bool)> = std::thread::scope(|scope| {
            let handles: Vec<_> = configs
                .iter()
                .map(|cfg| {
                    std::thread::Builder::new()
                        .stack_size(64 << 20)
                        .spawn_scoped(scope, move || enumerate_all(cfg, limit))
                        .unwrap()
                })
                .collect();
            handles.into_iter().map(|h| h.join().unwrap()).collect()
        });
        for (cases, complete) in results {
            if complete {
                complete_cases.extend(cases);
            } else {
                partial_cases.extend(cases);
            }
        }
    }
    // Configurations whose whole schedule space was enumerated.
    report.enumerate("exhaustive_small", true, complete_cases, check);
    // Configurations whose depth-first enumeration was cut at the tier's limit.
    report.enumerate("dfs_prefix", false, partial_cases, check);
    report.prop(
        "sampled",
        tier.pick(600, 50_000),
        sampled_case,
        check,
    );
}

/// Development aid: prints the size of each small configuration's schedule space.
pub fn debug_sizes() {
    for cfg in small_configs() {
        let t = std::time::Instant::now();
        let (cases, complete) = enumerate_all(&cfg, std::env::var("LIM").ok().and_then(|v| v.parse().ok()).unwrap_or(300));
        let maxlen = cases.iter().map(|c| c.choices.len()).max().unwrap_or(0);
        eprintln!(
            "{:?} heads={} lockoff={} crashes={} -> {} schedules complete={} maxlen={} {:.1}s",
            cfg.actors, cfg.initial_heads, cfg.lock_disabled, cfg.max_crashes, cases.len(), complete, maxlen,
            t.elapsed().as_secs_f64()
        );
    }
}
