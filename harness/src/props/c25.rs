//! C25 Checkout never destroys files it does not own.
//!
//! C24's check-out sequences on a real `TestWorkspace`, with obstacles planted on
//! disk before every checkout: untracked / ignored files, non-empty untracked
//! directories and symlinks (to a sentinel directory outside the workspace, to a
//! file in it, to a missing entry of it) at paths the new tree wants as file or as
//! directory, tracked files modified on disk, tracked directories replaced by a
//! symlink to the sentinel directory, tracked files replaced by such symlinks or by
//! a non-empty directory. Optionally a snapshot (auto-track all / none, `*.ign`
//! ignored) between two steps, as the CLI would do.
//!
//! Oracle, per checkout, with D = disk before, D' = disk after, old/new = leaf
//! entries of the working-copy tree before / of the tree checked out:
//! * every file, symlink or empty directory of D that is not a tracked path of
//!   `old`, and every tracked path the update does not touch, is identical in D';
//! * the sentinel directory outside the workspace is byte-identical, no new entries;
//! * `CheckoutStats::skipped_files` lies between the number of obstructed paths the
//!   update wanted to write and the number of all obstructed diff paths (removals
//!   included), where "obstructed" is decided by an independent model on D.

use std::collections::BTreeMap;
use std::collections::BTreeSet;
use std::path::Path;

use jj_lib::backend::MergedTreeValue;
use jj_lib::gitignore::GitIgnoreFile;
use jj_lib::matchers::EverythingMatcher;
use jj_lib::matchers::NothingMatcher;
use jj_lib::merged_tree::MergedTree;
use jj_lib::repo::Repo as _;
use jj_lib::repo_path::RepoPath;
use jj_lib::working_copy::SnapshotOptions;
use pollster::FutureExt as _;
use proptest::prelude::*;
use serde::Deserialize;
use serde::Serialize;
use testutils::TestWorkspace;

use crate::engine::runner::CheckResult;
use crate::engine::runner::Outcome;
use crate::engine::runner::Report;
use crate::engine::runner::Violation;
use crate::engine::runner::new_scratch_dir;
use crate::engine::runner::pick;
use crate::ensure;
use crate::gens::content::Bytes;
use crate::model::tree::PATHS;
use crate::model::wc;
use crate::model::wc::Disk;
use crate::model::wc::Node;
use crate::model::wc::TreeSpec;
use crate::model::wc::WcSettings;

/// Known finding: `TreeState::update` pushes a placeholder file state for every
/// skipped diff entry in diff-stream order; `diff_stream_for_file_system` emits an
/// added file `x` *after* the removed `x/...` entries, so when such a removal is
/// skipped (`x/y` was replaced on disk by a non-empty directory, or an ancestor of
/// it by a symlink) the list passed to `FileStatesMap::merge_in` is not sorted: the
/// debug assertion "changed_file_states must be sorted and have no duplicates"
/// fires; without debug assertions the file-state table ends up unsorted.
pub const SIG_UNSORTED: &str = "C25-skipped-removal-below-added-file-unsorted-file-states";

const EXTRA_PATHS: &[&str] = &[
    "zz",
    "a/zz",
    "a/b/zz",
    "d/zz",
    "d/e/zz",
    "b/zz",
    "c/zz",
    "ü/zz",
    "d/e/f/zz",
    "k.ign",
    "a/k.ign",
    "a/b/k.ign",
    "d/e/k.ign",
];

const CHILD_NAMES: &[&str] = &["zz", "b", "c", "e", "k.ign", "x"];

#[derive(Debug, Clone, Copy, PartialEq, Eq, Serialize, Deserialize)]
pub enum LinkTarget {
    /// The sentinel directory (holds entries named like the alphabet's children).
    Dir,
    /// A file inside the sentinel directory.
    File,
    /// A name that does not exist inside the sentinel directory.
    Missing,
}

#[derive(Debug, Clone, Serialize, Deserialize)]
pub enum Obstacle {
    /// Untracked (or, named `*.ign`, ignored) file at a free path.
    File { at: u16, prefer_tree: bool, content: u16, exec: bool },
    /// Non-empty untracked directory at a free path.
    Dir { at: u16, prefer_tree: bool, child: u16, content: u16 },
    /// Symlink out of the workspace at a free path.
    Link { at: u16, prefer_tree: bool, target: LinkTarget },
    /// Tracked regular file overwritten on disk.
    Modify { which: u16, content: u16 },
    /// Tracked directory removed and replaced by a symlink to the sentinel directory.
    DirToLink { which: u16 },
    /// Tracked file replaced by a symlink out of the workspace.
    FileToLink { which: u16, target: LinkTarget },
    /// Tracked file replaced by a non-empty directory.
    FileToDir { which: u16, child: u16, content: u16 },
}

#[derive(Debug, Clone, Copy, PartialEq, Eq, Serialize, Deserialize)]
pub enum SnapshotMode {
    No,
    TrackAll,
    TrackNone,
}

#[derive(Debug, Clone, Serialize, Deserialize)]
pub struct Step {
    pub tree: TreeSpec,
    pub obstacles: Vec<Obstacle>,
    /// Snapshot after this step's checkout was verified (before the next step).
    pub snapshot: SnapshotMode,
}

#[derive(Debug, Clone, Serialize, Deserialize)]
pub struct Case {
    pub settings: WcSettings,
    pub pool: Vec<Bytes>,
    pub steps: Vec<Step>,
    /// Only set by the stored witness of the known finding: do not steer around it.
    #[serde(default)]
    pub allow_known: bool,
}

fn link_target() -> impl Strategy<Value = LinkTarget> {
    prop_oneof![
        3 => Just(LinkTarget::Dir),
        2 => Just(LinkTarget::File),
        1 => Just(LinkTarget::Missing),
    ]
}

fn obstacle() -> impl Strategy<Value = Obstacle> {
    let prefer = || prop::bool::weighted(0.7);
    prop_oneof![
        4 => (any::<u16>(), prefer(), any::<u16>(), prop::bool::weighted(0.2))
            .prop_map(|(at, prefer_tree, content, exec)| Obstacle::File { at, prefer_tree, content, exec }),
        3 => (any::<u16>(), prefer(), any::<u16>(), any::<u16>())
            .prop_map(|(at, prefer_tree, child, content)| Obstacle::Dir { at, prefer_tree, child, content }),
        4 => (any::<u16>(), prefer(), link_target())
            .prop_map(|(at, prefer_tree, target)| Obstacle::Link { at, prefer_tree, target }),
        3 => (any::<u16>(), any::<u16>()).prop_map(|(which, content)| Obstacle::Modify { which, content }),
        3 => any::<u16>().prop_map(|which| Obstacle::DirToLink { which }),
        2 => (any::<u16>(), link_target()).prop_map(|(which, target)| Obstacle::FileToLink { which, target }),
        2 => (any::<u16>(), any::<u16>(), any::<u16>())
            .prop_map(|(which, child, content)| Obstacle::FileToDir { which, child, content }),
    ]
}

fn step() -> impl Strategy<Value = Step> {
    (
        wc::tree_spec(),
        prop::collection::vec(obstacle(), 0..=4),
        prop_oneof![
            3 => Just(SnapshotMode::No),
            2 => Just(SnapshotMode::TrackAll),
            2 => Just(SnapshotMode::TrackNone),
        ],
    )
        .prop_map(|(tree, obstacles, snapshot)| Step {
            tree,
            obstacles,
            snapshot,
        })
}

fn case_strategy(max_steps: usize) -> impl Strategy<Value = Case> {
    (
        wc::wc_settings(),
        wc::content_pool(),
        prop::collection::vec(step(), 1..=max_steps),
    )
        .prop_map(|(settings, pool, steps)| Case {
            settings,
            pool,
            steps,
            allow_known: false,
        })
}

// ---------------------------------------------------------------------------
// Sentinel directory outside the workspace
// ---------------------------------------------------------------------------

fn populate_sentinel(root: &Path) -> std::io::Result<()> {
    let dir = root.join("dir");
    std::fs::create_dir_all(dir.join("e"))?;
    for name in ["b", "c", "d", "f", "x", "y z", "ü", "zz", "e/f", "file"] {
        std::fs::write(dir.join(name), format!("sentinel:{name}\n"))?;
    }
    Ok(())
}

fn link_target_path(sentinel: &Path, t: LinkTarget) -> std::path::PathBuf {
    match t {
        LinkTarget::Dir => sentinel.join("dir"),
        LinkTarget::File => sentinel.join("dir").join("file"),
        LinkTarget::Missing => sentinel.join("dir").join("missing"),
    }
}

// ---------------------------------------------------------------------------
// Planting obstacles (pure function of the case and the current disk / trees)
// ---------------------------------------------------------------------------

fn is_free(disk: &Disk, path: &str) -> bool {
    !disk.contains_key(path)
        && wc::ancestors(path)
            .iter()
            .all(|a| matches!(disk.get(*a), None | Some(Node::Dir)))
}

fn relates_to(path: &str, keys: &BTreeSet<String>) -> bool {
    keys.iter()
        .any(|k| k == path || wc::is_below(k, path) || wc::is_below(path, k))
}

fn free_path(disk: &Disk, new_keys: &BTreeSet<String>, at: u16, prefer_tree: bool) -> Option<String> {
    let universe: Vec<&str> = PATHS.iter().chain(EXTRA_PATHS.iter()).copied().collect();
    let free: Vec<&str> = universe.into_iter().filter(|p| is_free(disk, p)).collect();
    let preferred: Vec<&str> = free
        .iter()
        .copied()
        .filter(|p| relates_to(p, new_keys))
        .collect();
    let list = if prefer_tree && !preferred.is_empty() { preferred } else { free };
    if list.is_empty() {
        None
    } else {
        Some(list[pick(at, list.len())].to_string())
    }
}

fn io<T>(what: &str, r: std::io::Result<T>) -> Result<T, Violation> {
    r.map_err(|e| Violation::new(format!("harness: {what}: {e}")))
}

/// Plants one obstacle; returns a label for the class histogram if planted.
fn plant(
    root: &Path,
    sentinel: &Path,
    old: &BTreeMap<String, MergedTreeValue>,
    new_keys: &BTreeSet<String>,
    pool: &wc::Pool,
    o: &Obstacle,
) -> Result<Option<&'static str>, Violation> {
    use std::os::unix::fs::PermissionsExt as _;
    let disk = wc::walk(root);
    let tracked_files: Vec<&String> = old
        .keys()
        .filter(|k| matches!(disk.get(*k), Some(Node::File { .. })))
        .collect();
    let tracked_leaves: Vec<&String> = old
        .keys()
        .filter(|k| matches!(disk.get(*k), Some(Node::File { .. } | Node::Symlink(_))))
        .collect();
    match o {
        Obstacle::File { at, prefer_tree, content, exec } => {
            let Some(p) = free_path(&disk, new_keys, *at, *prefer_tree) else { return Ok(None) };
            let fp = root.join(&p);
            io("mkdir", std::fs::create_dir_all(fp.parent().unwrap()))?;
            io("write", std::fs::write(&fp, &pool.get(*content).0))?;
            if *exec {
                io("chmod", std::fs::set_permissions(&fp, std::fs::Permissions::from_mode(0o755)))?;
            }
            Ok(Some(if p.ends_with(".ign") { "obstacle_ignored_file" } else { "obstacle_untracked_file" }))
        }
        Obstacle::Dir { at, prefer_tree, child, content } => {
            let Some(p) = free_path(&disk, new_keys, *at, *prefer_tree) else { return Ok(None) };
            let dp = root.join(&p);
            io("mkdir", std::fs::create_dir_all(&dp))?;
            let name = CHILD_NAMES[pick(*child, CHILD_NAMES.len())];
            io("write", std::fs::write(dp.join(name), &pool.get(*content).0))?;
            Ok(Some("obstacle_untracked_dir"))
        }
        Obstacle::Link { at, prefer_tree, target } => {
            let Some(p) = free_path(&disk, new_keys, *at, *prefer_tree) else { return Ok(None) };
            let lp = root.join(&p);
            io("mkdir", std::fs::create_dir_all(lp.parent().unwrap()))?;
            io("symlink", std::os::unix::fs::symlink(link_target_path(sentinel, *target), &lp))?;
            Ok(Some("obstacle_untracked_symlink_out"))
        }
        Obstacle::Modify { which, content } => {
            if tracked_files.is_empty() {
                return Ok(None);
            }
            let p = tracked_files[pick(*which, tracked_files.len())];
            let mut bytes = pool.get(*content).0;
            bytes.extend_from_slice(b"locally modified\n");
            io("write", std::fs::write(root.join(p), bytes))?;
            Ok(Some("obstacle_tracked_modified"))
        }
        Obstacle::DirToLink { which } => {
            let mut dirs: BTreeSet<&str> = BTreeSet::new();
            for k in old.keys() {
                for a in wc::ancestors(k) {
                    if matches!(disk.get(a), Some(Node::Dir)) {
                        dirs.insert(a);
                    }
                }
            }
            if dirs.is_empty() {
                return Ok(None);
            }
            let dirs: Vec<&str> = dirs.into_iter().collect();
            let d = dirs[pick(*which, dirs.len())];
            io("rm -r", std::fs::remove_dir_all(root.join(d)))?;
            io("symlink", std::os::unix::fs::symlink(link_target_path(sentinel, LinkTarget::Dir), root.join(d)))?;
            Ok(Some("obstacle_tracked_dir_to_symlink_out"))
        }
        Obstacle::FileToLink { which, target } => {
            if tracked_leaves.is_empty() {
                return Ok(None);
            }
            let p = tracked_leaves[pick(*which, tracked_leaves.len())];
            io("rm", std::fs::remove_file(root.join(p)))?;
            io("symlink", std::os::unix::fs::symlink(link_target_path(sentinel, *target), root.join(p)))?;
            Ok(Some("obstacle_tracked_file_to_symlink_out"))
        }
        Obstacle::FileToDir { which, child, content } => {
            if tracked_leaves.is_empty() {
                return Ok(None);
            }
            let p = tracked_leaves[pick(*which, tracked_leaves.len())];
            io("rm", std::fs::remove_file(root.join(p)))?;
            io("mkdir", std::fs::create_dir(root.join(p)))?;
            let name = CHILD_NAMES[pick(*child, CHILD_NAMES.len())];
            io("write", std::fs::write(root.join(p).join(name), &pool.get(*content).0))?;
            Ok(Some("obstacle_tracked_file_to_dir"))
        }
    }
}

/// Puts the working-copy files back into the state `target` (used to take back an
/// obstacle). Contents, exec bits and link targets are restored, mtimes are not.
fn restore_disk(root: &Path, target: &Disk) -> Result<(), Violation> {
    use std::os::unix::fs::PermissionsExt as _;
    let current = wc::walk(root);
    // Remove what does not belong, deepest first.
    for (path, node) in current.iter().rev() {
        if target.get(path) == Some(node) {
            continue;
        }
        let p = root.join(path);
        if std::fs::symlink_metadata(&p).is_err() {
            continue; // already removed together with its parent
        }
        if node.is_dir() {
            if !matches!(target.get(path), Some(Node::Dir)) {
                io("restore: rm -r", std::fs::remove_dir_all(&p))?;
            }
        } else {
            io("restore: rm", std::fs::remove_file(&p))?;
        }
    }
    // Recreate what is missing, parents first.
    for (path, node) in target {
        let p = root.join(path);
        if std::fs::symlink_metadata(&p).is_ok() {
            continue;
        }
        match node {
            Node::Dir => io("restore: mkdir", std::fs::create_dir(&p))?,
            Node::File { content, exec } => {
                io("restore: write", std::fs::write(&p, content))?;
                let mode = if *exec { 0o755 } else { 0o644 };
                io("restore: chmod", std::fs::set_permissions(&p, std::fs::Permissions::from_mode(mode)))?;
            }
            Node::Symlink(t) => io("restore: symlink", std::os::unix::fs::symlink(t, &p))?,
            Node::Other => {}
        }
    }
    let now = wc::walk(root);
    ensure!(&now == target, "harness: could not restore the disk after dropping an obstacle");
    Ok(())
}

// ---------------------------------------------------------------------------
// Independent model of which diff paths are obstructed
// ---------------------------------------------------------------------------

/// Paths of the update (old value != new value, plus conflicts whose labels
/// change while the number of tree-level sides stays the same).
fn diff_paths(
    old_tree: &MergedTree,
    new_tree: &MergedTree,
    old: &BTreeMap<String, MergedTreeValue>,
    new: &BTreeMap<String, MergedTreeValue>,
) -> BTreeSet<String> {
    let mut out = BTreeSet::new();
    for k in old.keys().chain(new.keys()) {
        if old.get(k) != new.get(k) {
            out.insert(k.clone());
        }
    }
    if old_tree.tree_ids().num_sides() == new_tree.tree_ids().num_sides()
        && old_tree.labels() != new_tree.labels()
    {
        for (k, v) in new {
            if !v.is_resolved() {
                out.insert(k.clone());
            }
        }
    }
    out
}

/// Leaves of the disk: files, symlinks, special files and *empty* directories.
fn disk_leaves(disk: &Disk) -> Vec<(&String, &Node)> {
    disk.iter()
        .filter(|(k, n)| !n.is_dir() || !wc::has_children(disk, k))
        .collect()
}

/// Does the update have to skip diff path `p`, given the disk before?
fn obstructed(p: &str, disk: &Disk, old: &BTreeMap<String, MergedTreeValue>) -> bool {
    // (a) an ancestor is a file or symlink that is not a tracked path: it is never
    // removed by the update, and the update must not traverse it.
    for a in wc::ancestors(p) {
        match disk.get(a) {
            Some(Node::Dir) | None => {}
            Some(_) if !old.contains_key(a) => return true,
            Some(_) => {}
        }
    }
    match disk.get(p) {
        None => false,
        // (b) tracked path: whatever file or symlink is there is replaced; a
        // directory is not removed.
        Some(node) if old.contains_key(p) => node.is_dir(),
        // (c) untracked path: anything that is still there when the update gets to
        // it is in the way. A directory goes away only if everything below it is a
        // tracked file or symlink (those are removed first, then the empty
        // directories).
        Some(Node::Dir) => {
            let below: Vec<(&String, &Node)> = disk_leaves(disk)
                .into_iter()
                .filter(|(k, _)| wc::is_below(k, p))
                .collect();
            below.is_empty() || below.iter().any(|(k, n)| n.is_dir() || !old.contains_key(*k))
        }
        Some(_) => true,
    }
}

// ---------------------------------------------------------------------------
// The check
// ---------------------------------------------------------------------------

#[derive(Default)]
struct Facts {
    classes: BTreeSet<&'static str>,
    nontrivial: bool,
}

fn check(case: &Case) -> CheckResult {
    let settings = case.settings;
    let user_settings = settings.user_settings().map_err(Violation::new)?;
    let mut ws = TestWorkspace::init_with_backend_and_settings(testutils::TestRepoBackend::Simple, &user_settings);
    let root = ws.workspace.workspace_root().to_owned();
    let sentinel_dir = new_scratch_dir("c25-sentinel-");
    let sentinel = sentinel_dir.path().to_owned();
    io("populate sentinel", populate_sentinel(&sentinel))?;
    let mut sim = wc::Sim::new(&case.pool, settings.eol);
    let mut facts = Facts::default();
    let base_ignores = GitIgnoreFile::empty()
        .chain(RepoPath::root(), Path::new(""), b"*.ign\n")
        .map_err(|e| Violation::new(format!("harness: ignore patterns: {e}")))?;

    for (i, step) in case.steps.iter().enumerate() {
        let recipe = sim.next(&step.tree);
        let store = ws.repo.store().clone();
        let Some(new_tree) = recipe.build_checked(&store).map_err(Violation::new)? else {
            // jj's own debug assertion fired while merging the trees (C07's subject).
            facts.classes.insert("excluded_merge_debug_assert");
            break;
        };
        let old_tree: MergedTree = ws
            .workspace
            .working_copy()
            .tree()
            .map_err(|e| Violation::new(format!("harness: working copy tree: {e}")))?
            .clone();
        let old = wc::entries_map(&old_tree).map_err(Violation::new)?;
        let new = wc::entries_map(&new_tree).map_err(Violation::new)?;
        let new_keys: BTreeSet<String> = new.keys().cloned().collect();

        let diff = diff_paths(&old_tree, &new_tree, &old, &new);
        // Known finding (see SIG_UNSORTED): a directory is replaced by a file while
        // the removal of something below it has to be skipped. The class is kept
        // out of the generated cases by construction (obstacles that would create
        // it are taken back and counted; a sequence in which leftovers of earlier
        // steps create it ends there) so that the search continues behind it; the
        // stored witness sets `allow_known`.
        let in_known_class = |disk: &Disk| {
            diff.iter().any(|p| {
                !old.contains_key(p)
                    && new.contains_key(p)
                    && diff
                        .iter()
                        .any(|q| old.contains_key(q) && wc::is_below(q, p) && obstructed(q, disk, &old))
            })
        };
        if !case.allow_known && in_known_class(&wc::walk(&root)) {
            facts.classes.insert("redirected_known_class_sequence_end");
            break;
        }
        for o in &step.obstacles {
            let saved = wc::walk(&root);
            if let Some(label) = plant(&root, &sentinel, &old, &new_keys, &sim.pool, o)? {
                if !case.allow_known && in_known_class(&wc::walk(&root)) {
                    restore_disk(&root, &saved)?;
                    facts.classes.insert("redirected_known_class_obstacle_dropped");
                } else {
                    facts.classes.insert(label);
                }
            }
        }

        let before = wc::walk(&root);
        let sentinel_before = wc::walk(&sentinel);
        let skipped_all: BTreeSet<&String> = diff.iter().filter(|p| obstructed(p, &before, &old)).collect();
        let skipped_writes = skipped_all.iter().filter(|p| new.contains_key(**p)).count() as u32;
        let known_class = in_known_class(&before);
        let commit = testutils::commit_with_tree(&store, new_tree.clone());
        let op_id = ws.repo.op_id().clone();
        let result = crate::engine::runner::catch(|| {
            ws.workspace
                .check_out(op_id, None, &commit)
                .block_on()
                .map_err(|e| Violation::new(format!("step {i}: check_out failed: {e} ({e:?})")))
        });
        let stats = match result {
            Ok(stats) => stats,
            Err(v) if known_class && v.msg.contains("changed_file_states must be sorted") => {
                return Err(Violation::known(
                    SIG_UNSORTED,
                    format!(
                        "step {i}: {} (directory replaced by a file while removals below it are skipped: {:?})",
                        v.msg, skipped_all
                    ),
                ));
            }
            Err(v) => return Err(v),
        };

        let after = wc::walk(&root);
        let sentinel_after = wc::walk(&sentinel);

        // Never follow symlinks out of the workspace.
        if sentinel_after != sentinel_before {
            let mut msg = format!("step {i}: the directory outside the workspace changed:");
            for (k, v) in &sentinel_before {
                match sentinel_after.get(k) {
                    None => msg.push_str(&format!(" {k:?} deleted;")),
                    Some(v2) if v2 != v => msg.push_str(&format!(" {k:?} {} -> {};", v.brief(), v2.brief())),
                    _ => {}
                }
            }
            for (k, v) in &sentinel_after {
                if !sentinel_before.contains_key(k) {
                    msg.push_str(&format!(" {k:?} created as {};", v.brief()));
                }
            }
            return Err(Violation::new(msg));
        }

        // Everything the update does not own is untouched.
        for (path, node) in disk_leaves(&before) {
            let tracked = old.contains_key(path);
            let touched = diff.contains(path);
            if tracked && touched {
                continue;
            }
            let kind = if tracked { "tracked path not touched by the update" } else { "untracked path" };
            match (node, after.get(path)) {
                (Node::Dir, Some(Node::Dir)) => {}
                (n, Some(n2)) if n == n2 => {}
                (n, other) => {
                    return Err(Violation::new(format!(
                        "step {i}: {kind} {path:?} was {} before check_out and is {} afterwards",
                        n.brief(),
                        other.map(|n| n.brief()).unwrap_or_else(|| "gone".into())
                    )));
                }
            }
            // Class bookkeeping: is this obstacle in the way of the update?
            if !tracked {
                let in_the_way = diff.iter().any(|d| {
                    d == path || wc::is_below(d, path) || wc::is_below(path, d)
                });
                if in_the_way {
                    facts.nontrivial = true;
                    if diff.iter().any(|d| d == path) {
                        facts.classes.insert("obstacle_on_diff_path");
                    }
                    if diff.iter().any(|d| wc::is_below(d, path)) {
                        facts.classes.insert("obstacle_is_ancestor_of_diff_path");
                    }
                    if diff.iter().any(|d| wc::is_below(path, d)) {
                        facts.classes.insert("obstacle_below_diff_path");
                    }
                }
            }
        }

        // Obstructed paths are reported as skipped.
        ensure!(
            skipped_writes <= stats.skipped_files && stats.skipped_files <= skipped_all.len() as u32,
            "step {i}: CheckoutStats::skipped_files = {} but the model expects between {} (obstructed paths \
             to write) and {} (all obstructed diff paths: {:?}); stats {:?}",
            stats.skipped_files,
            skipped_writes,
            skipped_all.len(),
            skipped_all,
            stats
        );
        if !skipped_all.is_empty() {
            facts.classes.insert("skipped_some");
        }
        if skipped_all.len() as u32 > skipped_writes {
            facts.classes.insert("skipped_removal");
            if stats.skipped_files == skipped_all.len() as u32 {
                facts.classes.insert("skipped_removal_counted_in_stats");
            } else {
                facts.classes.insert("skipped_removal_not_counted_in_stats");
            }
        }
        if diff
            .iter()
            .any(|p| wc::ancestors(p).iter().any(|a| matches!(before.get(*a), Some(Node::Symlink(_)))))
        {
            facts.classes.insert("diff_path_below_symlink");
        }

        match step.snapshot {
            SnapshotMode::No => {}
            mode => {
                let options = SnapshotOptions {
                    base_ignores: base_ignores.clone(),
                    progress: None,
                    start_tracking_matcher: if mode == SnapshotMode::TrackAll {
                        &EverythingMatcher
                    } else {
                        &NothingMatcher
                    },
                    force_tracking_matcher: &NothingMatcher,
                    max_new_file_size: u64::MAX,
                };
                // The snapshot is only a realistic way to move on to the next
                // step; its result is C23's business. A failure ends the sequence.
                // (A panic is one of jj's debug assertions inside the snapshot, e.g.
                // "state_paths == tree_paths" when a directory with a conflicted
                // subtree is a file on disk - reported separately, not C25's subject.)
                match crate::engine::runner::catch(|| {
                    ws.snapshot_with_options(&options)
                        .map_err(|e| Violation::new(format!("snapshot: {e}")))
                }) {
                    Ok(_) => {
                        facts.classes.insert("snapshot_between");
                    }
                    Err(v) if v.msg.starts_with("panic:") => {
                        facts.classes.insert("excluded_snapshot_debug_assert");
                        break;
                    }
                    Err(_) => {
                        facts.classes.insert("snapshot_between_failed");
                        break;
                    }
                }
            }
        }
    }

    let mut out = Outcome::new(facts.nontrivial);
    for c in facts.classes {
        out = out.class(c);
    }
    Ok(out
        .class_if(sim.pool.sanitized.get() > 0, "excluded_stored_crlf")
        .class_if(case.steps.len() >= 4, "steps_ge_4"))
}

pub fn run(report: &mut Report) {
    report.set_rule(
        "case = C24's settings, content pool and tree specs, 1..=6 steps, each with 0..=4 obstacles planted \
         on disk before the checkout (untracked/ignored file, non-empty untracked directory, symlink to a \
         directory/file/missing name outside the workspace - at free paths, 70% biased to paths related to \
         the new tree; tracked file modified; tracked directory replaced by a symlink out; tracked file \
         replaced by a symlink out or by a non-empty directory) and an optional snapshot afterwards \
         (auto-track all / none, *.ign ignored); non-trivial = some untracked file/symlink/directory sits on \
         a path the update touches, on an ancestor of one, or below one",
    );
    report.assume(
        "tree construction, MergedTree::merge and reading tree entries are trusted (C07); the set of paths \
         an update touches is computed from the two trees' leaf entries (plus re-labelled conflicts)",
    );
    report.assume(
        "a tracked path that the update touches may be replaced whatever stands there (jj does not compare \
         it with the recorded state; the property only protects untracked/ignored paths and tracked paths \
         the update does not touch); skipped removals may or may not be counted in skipped_files",
    );
    let cases = report.tier.pick(2000, 60000);
    report.prop("obstacles", cases, || case_strategy(6), check);
}
