//! C21 Stacked tables keep every saved entry under concurrent writers.
//!
//! Generated histories of `get_head` / `start_mutation`+`add_entry`*+`save_table` /
//! drop-and-reload over 2-3 `TableStore` instances that share one directory,
//! including writers that keep a stale head. The oracle is the causal history
//! of writes (a write is superseded by a later write to the same key whose save
//! started from a table that already contained it):
//!
//! * every key recorded by a completed save that is in the causal history of
//!   the observed table is present, no other key is;
//! * the value is the value of a causally *maximal* write to the key (in a
//!   history without stale writers this is exactly the latest write);
//! * a save never changes the lookup of a key it does not write (squash), and
//!   a freshly loaded store answers exactly like the one it replaces (reload).
//!
//! Known finding F2 (DESIGN §7): when divergent heads are merged, the value of
//! the head that comes later in directory order wins, even if it is causally
//! superseded by the value in the other head (segment ancestry is lost by
//! squashing). Failures with exactly that shape carry the signature
//! `C21-F2-superseded-value-after-stale-squash`; everything else is a plain
//! violation.

use std::collections::BTreeMap;
use std::collections::BTreeSet;
use std::path::Path;
use std::sync::Arc;
use std::sync::atomic::AtomicU64;
use std::sync::atomic::Ordering;

use jj_lib::stacked_table::ReadonlyTable;
use jj_lib::stacked_table::TableSegment as _;
use jj_lib::stacked_table::TableStore;
use proptest::prelude::*;
use serde::Deserialize;
use serde::Serialize;

use crate::engine::runner::CheckResult;
use crate::engine::runner::Outcome;
use crate::engine::runner::Report;
use crate::engine::runner::Violation;
use crate::engine::runner::new_scratch_dir;
use crate::engine::runner::pick;

pub const SIG_F2: &str = "C21-F2-superseded-value-after-stale-squash";
/// Second finding (found by this check): `get_head_locked()` removes the head
/// files of `tables[1..]` after saving the merged table; if the merged table is
/// content-identical to one of those heads (same file name), its own head file is
/// removed, no head is left and the next `get_head()` starts from an empty table.
pub const SIG_HEADS_LOST: &str = "C21-merge-result-equals-merged-head-loses-all-heads";

const KEY_SIZE: usize = 3;

// Generator-distribution counters for cases that end in a known finding (the
// runner only counts them in total).
static HITS_F2: AtomicU64 = AtomicU64::new(0);
static HITS_HEADS_LOST: AtomicU64 = AtomicU64::new(0);
static HITS_BY_MODE: [AtomicU64; 3] = [AtomicU64::new(0), AtomicU64::new(0), AtomicU64::new(0)];

#[derive(Debug, Clone, Copy, PartialEq, Eq, Serialize, Deserialize)]
pub enum Mode {
    /// Every save starts from a fresh `get_head()`: no stale writer ever.
    /// Small key space, so sequential overwrites are frequent.
    Sequential,
    /// Stale writers allowed; every write uses a key of its own (or repeats an
    /// earlier write verbatim), which is how jj uses these tables. F2 cannot
    /// occur, all clauses are exact.
    StaleFresh,
    /// Stale writers and overwrites of a small key space: F2 territory.
    StaleMixed,
}

#[derive(Debug, Clone, Serialize, Deserialize)]
pub enum Entry {
    /// Key from the small key space (raw selector), value padding selector.
    Small(u16, u8),
    /// A key never used before.
    Fresh(u8),
    /// Refers to an earlier write (raw selector). Sequential/StaleFresh: the same
    /// key *and value* are written again; StaleMixed: the same key gets a new value.
    Again(u16, u8),
}

#[derive(Debug, Clone, Serialize, Deserialize)]
pub enum Op {
    /// The instance calls `get_head()` and keeps the table (merges divergent heads).
    GetHead { inst: u16 },
    /// `start_mutation` on the kept table (after a fresh `get_head()` if
    /// `refresh`, in `Sequential` mode, or when nothing is kept), `add_entry` for
    /// every entry, `save_table`; the saved table is kept.
    Save {
        inst: u16,
        refresh: bool,
        entries: Vec<Entry>,
    },
    /// Drops the `TableStore` instance and loads a new one from the directory
    /// (the kept table stays, so staleness survives the reload).
    Reload { inst: u16 },
}

#[derive(Debug, Clone, Serialize, Deserialize)]
pub struct Case {
    pub mode: Mode,
    pub insts: u8,
    pub key_space: u8,
    pub ops: Vec<Op>,
}

struct Write {
    key: Vec<u8>,
    value: Vec<u8>,
    /// Writes that causally precede this one (everything the base table of the
    /// save contained).
    preds: BTreeSet<usize>,
}

#[derive(Default, Clone)]
struct TableInfo {
    /// Causal history: ids of all writes recorded by saves this table descends from.
    writes: BTreeSet<usize>,
    /// Lookups observed on the table when it was created.
    visible: BTreeMap<Vec<u8>, Option<Vec<u8>>>,
}

struct Inst {
    store: TableStore,
    held: Option<Arc<ReadonlyTable>>,
}

#[derive(Default)]
struct Model {
    writes: Vec<Write>,
    tables: BTreeMap<String, TableInfo>,
    keys: BTreeSet<Vec<u8>>,
    fresh_counter: u16,
    value_counter: u16,
    stale_save_seen: bool,
    // statistics
    divergent_merges: u32,
    merges_of_3: u32,
    squashes: u32,
    unsquashed_saves: u32,
    overwrites: u32,
    stale_saves: u32,
    empty_saves: u32,
    reloads: u32,
    again_same_value: u32,
}

fn small_key(i: usize) -> Vec<u8> {
    vec![b'k', 0, i as u8]
}

fn fresh_key(n: u16) -> Vec<u8> {
    vec![b'f', (n >> 8) as u8, n as u8]
}

fn probe_keys(model: &Model) -> Vec<Vec<u8>> {
    let mut keys: Vec<Vec<u8>> = model.keys.iter().cloned().collect();
    // Keys that no save ever records (below, between and above the used ones).
    keys.push(vec![0, 0, 0]);
    keys.push(vec![b'g', 0, 0]);
    keys.push(vec![0xff, 0xff, 0xff]);
    keys
}

fn list_heads(dir: &Path) -> Result<Vec<String>, Violation> {
    let mut names = vec![];
    let entries = std::fs::read_dir(dir.join("heads"))
        .map_err(|e| Violation::new(format!("cannot list heads: {e}")))?;
    for e in entries {
        let e = e.map_err(|e| Violation::new(format!("cannot list heads: {e}")))?;
        names.push(e.file_name().to_string_lossy().into_owned());
    }
    names.sort();
    Ok(names)
}

fn hex(v: &[u8]) -> String {
    v.iter().map(|b| format!("{b:02x}")).collect()
}

fn lookups(table: &ReadonlyTable, keys: &[Vec<u8>]) -> BTreeMap<Vec<u8>, Option<Vec<u8>>> {
    keys.iter()
        .map(|k| (k.clone(), table.get_value(k).map(|v| v.to_vec())))
        .collect()
}

/// How the observed table came to be, for classification of a wrong value.
enum Context<'a> {
    /// Result of `save_table` or a single head returned by `get_head()`.
    Plain,
    /// Result of `get_head()` merging these divergent heads.
    Merge(&'a [String]),
}

/// Compares all lookups on `table` with the causal model. `expected` is the
/// causal history the table must represent.
fn observe(
    model: &Model,
    what: &str,
    actual: &BTreeMap<Vec<u8>, Option<Vec<u8>>>,
    expected: &BTreeSet<usize>,
    ctx: &Context<'_>,
) -> Result<(), Violation> {
    let mut known: Option<Violation> = None;
    for (key, got) in actual {
        let cands: Vec<usize> = expected
            .iter()
            .copied()
            .filter(|w| &model.writes[*w].key == key)
            .collect();
        if cands.is_empty() {
            if let Some(v) = got {
                return Err(Violation::new(format!(
                    "{what}: key {} has value {} although no save in the table's history wrote it",
                    hex(key),
                    hex(v)
                )));
            }
            continue;
        }
        let Some(v) = got else {
            return Err(Violation::new(format!(
                "{what}: key {} recorded by a completed save is missing (entry lost)",
                hex(key)
            )));
        };
        let matching: Vec<usize> = cands
            .iter()
            .copied()
            .filter(|w| &model.writes[*w].value == v)
            .collect();
        if matching.is_empty() {
            return Err(Violation::new(format!(
                "{what}: key {} has value {} which was never written for it",
                hex(key),
                hex(v)
            )));
        }
        let superseded_by = |w: usize| -> Option<usize> {
            cands
                .iter()
                .copied()
                .find(|w2| model.writes[*w2].preds.contains(&w))
        };
        if matching.iter().any(|w| superseded_by(*w).is_none()) {
            continue; // value of a causally maximal write
        }
        let w1 = matching[0];
        let w2 = superseded_by(w1).unwrap();
        let msg = format!(
            "{what}: key {} has value {} (write #{w1}) although write #{w2} with value {} was saved \
             on top of a table that already contained write #{w1}",
            hex(key),
            hex(v),
            hex(&model.writes[w2].value)
        );
        // Signature of F2: the wrong value appears when divergent heads are
        // merged, it is what one of the merged heads answered for the key (the
        // merge preferred the wrong head), both writes are in the history, and a
        // stale writer took part in the history.
        let from_a_head = match ctx {
            Context::Merge(heads) if heads.len() >= 2 => heads.iter().any(|h| {
                model
                    .tables
                    .get(h)
                    .and_then(|t| t.visible.get(key))
                    .is_some_and(|hv| hv.as_deref() == Some(v.as_slice()))
            }),
            _ => false,
        };
        if from_a_head && model.stale_save_seen {
            known.get_or_insert(Violation::known(SIG_F2, msg));
        } else {
            return Err(Violation::new(msg));
        }
    }
    match known {
        Some(v) => Err(v),
        None => Ok(()),
    }
}

fn io<T>(what: &str, r: Result<T, jj_lib::stacked_table::TableStoreError>) -> Result<T, Violation> {
    r.map_err(|e| Violation::new(format!("{what} failed: {e} ({e:?})")))
}

/// `get_head()` on `store`, checked against the model. Returns the table.
fn checked_get_head(
    model: &mut Model,
    dir: &Path,
    store: &TableStore,
    what: &str,
) -> Result<Arc<ReadonlyTable>, Violation> {
    let heads = list_heads(dir)?;
    let mut expected = BTreeSet::new();
    for h in &heads {
        let Some(info) = model.tables.get(h) else {
            return Err(Violation::new(format!(
                "{what}: head file {h} is not a table any save or merge returned"
            )));
        };
        expected.extend(info.writes.iter().copied());
    }
    if heads.is_empty() && !model.tables.is_empty() {
        return Err(Violation::new(format!(
            "{what}: no head file is left although tables have been saved"
        )));
    }
    let table = io(what, store.get_head())?;
    let actual = lookups(&table, &probe_keys(model));
    let ctx = if heads.len() >= 2 {
        model.divergent_merges += 1;
        if heads.len() >= 3 {
            model.merges_of_3 += 1;
        }
        Context::Merge(&heads)
    } else {
        Context::Plain
    };
    observe(model, what, &actual, &expected, &ctx)?;
    if heads.len() >= 2 && list_heads(dir)?.is_empty() {
        // The merge left no head file behind. Observe through the API what the
        // next reader gets (this ends the case).
        let reader = TableStore::load(dir.to_path_buf(), KEY_SIZE);
        let next = io(what, reader.get_head())?;
        let lost: Vec<String> = expected
            .iter()
            .map(|w| &model.writes[*w].key)
            .collect::<BTreeSet<_>>()
            .into_iter()
            .filter(|k| next.get_value(k).is_none())
            .map(|k| hex(k))
            .collect();
        if !lost.is_empty() {
            let msg = format!(
                "{what}: merged {} heads into table {}…; afterwards no head file is left and the \
                 next get_head() returns a table without keys {lost:?} recorded by completed saves",
                heads.len(),
                &table.name()[..12]
            );
            // Signature: the merged table has the same name (content) as one of
            // the heads that were merged.
            return Err(if heads.iter().any(|h| h == table.name()) {
                Violation::known(SIG_HEADS_LOST, msg)
            } else {
                Violation::new(msg)
            });
        }
    }
    let info = model.tables.entry(table.name().to_string()).or_default();
    info.writes.extend(expected);
    info.visible = actual;
    Ok(table)
}

fn run_case(case: &Case, dir: &Path) -> CheckResult {
    let n_insts = usize::from(case.insts.clamp(1, 4));
    let key_space = usize::from(case.key_space.max(1));
    let mut insts: Vec<Inst> = vec![];
    insts.push(Inst {
        store: TableStore::init(dir.to_path_buf(), KEY_SIZE),
        held: None,
    });
    for _ in 1..n_insts {
        insts.push(Inst {
            store: TableStore::load(dir.to_path_buf(), KEY_SIZE),
            held: None,
        });
    }
    let mut model = Model::default();

    for (step, op) in case.ops.iter().enumerate() {
        match op {
            Op::GetHead { inst } => {
                let i = pick(*inst, n_insts);
                let what = format!("step {step}: get_head() on instance {i}");
                let table = checked_get_head(&mut model, dir, &insts[i].store, &what)?;
                insts[i].held = Some(table);
            }
            Op::Reload { inst } => {
                let i = pick(*inst, n_insts);
                let what = format!("step {step}: get_head() on instance {i} before reload");
                let before = checked_get_head(&mut model, dir, &insts[i].store, &what)?;
                let keys = probe_keys(&model);
                let before_lookups = lookups(&before, &keys);
                insts[i].store = TableStore::load(dir.to_path_buf(), KEY_SIZE);
                let what = format!("step {step}: get_head() on instance {i} after reload");
                let after = checked_get_head(&mut model, dir, &insts[i].store, &what)?;
                let after_lookups = lookups(&after, &keys);
                if before_lookups != after_lookups {
                    let key = keys
                        .iter()
                        .find(|k| before_lookups[*k] != after_lookups[*k])
                        .unwrap();
                    return Err(Violation::new(format!(
                        "step {step}: lookup of key {} changed across a reload without any save: \
                         {:?} -> {:?}",
                        hex(key),
                        before_lookups[key].as_deref().map(hex),
                        after_lookups[key].as_deref().map(hex)
                    )));
                }
                model.reloads += 1;
            }
            Op::Save {
                inst,
                refresh,
                entries,
            } => {
                let i = pick(*inst, n_insts);
                let refresh = *refresh || case.mode == Mode::Sequential || insts[i].held.is_none();
                if refresh {
                    let what = format!("step {step}: get_head() on instance {i} before save");
                    let table = checked_get_head(&mut model, dir, &insts[i].store, &what)?;
                    insts[i].held = Some(table);
                }
                let base = insts[i].held.clone().unwrap();
                let base_name = base.name().to_string();
                let Some(base_info) = model.tables.get(&base_name).cloned() else {
                    return Err(Violation::new(format!("step {step}: kept table unknown to the model")));
                };
                let heads_before = list_heads(dir)?;
                let stale = heads_before != [base_name.clone()];
                // Build the entries of this save.
                let mut new_entries: BTreeMap<Vec<u8>, Vec<u8>> = BTreeMap::new();
                let mut order: Vec<Vec<u8>> = vec![];
                for e in entries {
                    model.value_counter += 1;
                    let next_id = model.value_counter;
                    let unique_value = |pad: u8| -> Vec<u8> {
                        let mut v = vec![b'w', (next_id >> 8) as u8, next_id as u8];
                        v.extend(std::iter::repeat_n(b'.', (usize::from(pad) * 5) >> 8));
                        v
                    };
                    let (key, value) = match (e, case.mode) {
                        (Entry::Small(raw, pad), Mode::Sequential | Mode::StaleMixed) => {
                            (small_key(pick(*raw, key_space)), unique_value(*pad))
                        }
                        (Entry::Small(_, pad), Mode::StaleFresh) | (Entry::Fresh(pad), _) => {
                            model.fresh_counter += 1;
                            (fresh_key(model.fresh_counter), unique_value(*pad))
                        }
                        (Entry::Again(raw, pad), mode) => {
                            if model.writes.is_empty() {
                                model.fresh_counter += 1;
                                (fresh_key(model.fresh_counter), unique_value(*pad))
                            } else {
                                let w = &model.writes[pick(*raw, model.writes.len())];
                                if mode == Mode::StaleMixed {
                                    (w.key.clone(), unique_value(*pad))
                                } else {
                                    model.again_same_value += 1;
                                    (w.key.clone(), w.value.clone())
                                }
                            }
                        }
                    };
                    // Several entries for one key in a single save: the last
                    // add_entry() replaces the earlier ones before anything is saved.
                    if new_entries.insert(key.clone(), value).is_none() {
                        order.push(key);
                    }
                }
                let keys_before = probe_keys(&model);
                let base_lookups = lookups(&base, &keys_before);
                let mut mut_table = base.start_mutation();
                // add_entry in generated order (BTreeMap inside sorts anyway).
                for key in &order {
                    mut_table.add_entry(key.clone(), new_entries[key].clone());
                }
                let what = format!(
                    "step {step}: save_table() of {} entries on instance {i}{}",
                    order.len(),
                    if stale { " (stale base)" } else { "" }
                );
                let saved = io(&what, insts[i].store.save_table(mut_table))?;
                // Model update.
                let mut expected = base_info.writes.clone();
                for key in &order {
                    let id = model.writes.len();
                    if base_info.writes.iter().any(|w| &model.writes[*w].key == key) {
                        model.overwrites += 1;
                    }
                    model.writes.push(Write {
                        key: key.clone(),
                        value: new_entries[key].clone(),
                        preds: base_info.writes.clone(),
                    });
                    model.keys.insert(key.clone());
                    expected.insert(id);
                }
                if stale {
                    model.stale_save_seen = true;
                    model.stale_saves += 1;
                }
                if order.is_empty() {
                    model.empty_saves += 1;
                } else if saved
                    .segment_parent_file()
                    .is_some_and(|p| p.name() == base_name)
                {
                    model.unsquashed_saves += 1;
                } else {
                    model.squashes += 1;
                }
                // Squash must not change what the base answered for other keys.
                for key in &keys_before {
                    if new_entries.contains_key(key) {
                        continue;
                    }
                    let after = saved.get_value(key).map(|v| v.to_vec());
                    if after != base_lookups[key] {
                        return Err(Violation::new(format!(
                            "{what}: lookup of key {} which this save does not write changed from \
                             {:?} to {:?}",
                            hex(key),
                            base_lookups[key].as_deref().map(hex),
                            after.as_deref().map(hex)
                        )));
                    }
                }
                let actual = lookups(&saved, &probe_keys(&model));
                // The written entries themselves must read back.
                for key in &order {
                    if actual[key].as_ref() != Some(&new_entries[key]) {
                        return Err(Violation::new(format!(
                            "{what}: key {} just saved with value {} reads back as {:?}",
                            hex(key),
                            hex(&new_entries[key]),
                            actual[key].as_deref().map(hex)
                        )));
                    }
                }
                observe(&model, &what, &actual, &expected, &Context::Plain)?;
                let info = model.tables.entry(saved.name().to_string()).or_default();
                info.writes.extend(expected);
                info.visible = actual;
                insts[i].held = Some(saved);
            }
        }
    }
    // Final observation: a brand-new instance loads the table from disk and every
    // other instance agrees with it.
    let fresh = TableStore::load(dir.to_path_buf(), KEY_SIZE);
    let final_table = checked_get_head(&mut model, dir, &fresh, "final get_head() on a new instance")?;
    let keys = probe_keys(&model);
    let final_lookups = lookups(&final_table, &keys);
    for (i, inst) in insts.iter().enumerate() {
        let what = format!("final get_head() on instance {i}");
        let t = checked_get_head(&mut model, dir, &inst.store, &what)?;
        if lookups(&t, &keys) != final_lookups {
            return Err(Violation::new(format!(
                "{what}: answers differ from a freshly loaded instance without any save in between"
            )));
        }
    }
    // Every key ever saved is present at the end (all heads have been merged).
    for key in &model.keys {
        if final_lookups[key].is_none() {
            return Err(Violation::new(format!(
                "final table misses key {} recorded by a completed save",
                hex(key)
            )));
        }
    }
    let nontrivial = model.divergent_merges > 0 || model.squashes > 0;
    Ok(Outcome::new(nontrivial)
        .class_if(case.mode == Mode::Sequential, "mode:sequential")
        .class_if(case.mode == Mode::StaleFresh, "mode:stale-fresh-keys")
        .class_if(case.mode == Mode::StaleMixed, "mode:stale-mixed(passed)")
        .class_if(model.divergent_merges > 0, "divergent-heads-merged")
        .class_if(model.merges_of_3 > 0, "merge-of>=3-heads")
        .class_if(model.stale_saves > 0, "stale-save")
        .class_if(model.squashes > 0, "squash")
        .class_if(model.squashes > 0 && model.unsquashed_saves > 0, "squash+unsquashed-chain")
        .class_if(model.overwrites > 0, "overwrite")
        .class_if(
            case.mode == Mode::StaleMixed && model.overwrites > 0 && model.divergent_merges > 0,
            "stale-mixed:overwrite+divergent-merge(passed)",
        )
        .class_if(
            case.mode == Mode::StaleFresh && model.divergent_merges > 0,
            "stale-fresh-keys:divergent-merge(passed)",
        )
        .class_if(model.empty_saves > 0, "empty-save")
        .class_if(model.again_same_value > 0, "same-entry-saved-again")
        .class_if(model.reloads > 0, "reload"))
}

fn check(case: &Case) -> CheckResult {
    let dir = new_scratch_dir("c21-");
    let result = run_case(case, dir.path());
    if let Err(v) = &result
        && let Some(sig) = v.signature
    {
        if sig == SIG_F2 {
            HITS_F2.fetch_add(1, Ordering::Relaxed);
        } else if sig == SIG_HEADS_LOST {
            HITS_HEADS_LOST.fetch_add(1, Ordering::Relaxed);
        }
        HITS_BY_MODE[case.mode as usize].fetch_add(1, Ordering::Relaxed);
    }
    result
}

fn entry_strategy() -> impl Strategy<Value = Entry> {
    prop_oneof![
        6 => (any::<u16>(), any::<u8>()).prop_map(|(k, p)| Entry::Small(k, p)),
        2 => any::<u8>().prop_map(Entry::Fresh),
        2 => (any::<u16>(), any::<u8>()).prop_map(|(w, p)| Entry::Again(w, p)),
    ]
}

fn op_strategy() -> impl Strategy<Value = Op> {
    let entries = prop_oneof![
        10 => prop::collection::vec(entry_strategy(), 1..=2),
        1 => Just(vec![]),
        4 => prop::collection::vec(entry_strategy(), 3..=6),
        3 => prop::collection::vec(entry_strategy(), 8..=14),
    ];
    prop_oneof![
        3 => any::<u16>().prop_map(|inst| Op::GetHead { inst }),
        7 => (any::<u16>(), prop::bool::weighted(0.3), entries)
            .prop_map(|(inst, refresh, entries)| Op::Save { inst, refresh, entries }),
        1 => any::<u16>().prop_map(|inst| Op::Reload { inst }),
    ]
}

fn case_strategy(max_ops: usize) -> impl Strategy<Value = Case> {
    (
        prop_oneof![
            25 => Just(Mode::Sequential),
            35 => Just(Mode::StaleFresh),
            40 => Just(Mode::StaleMixed),
        ],
        2u8..=3,
        1u8..=8,
        prop::collection::vec(op_strategy(), 3..=max_ops),
    )
        .prop_map(|(mode, insts, key_space, ops)| Case {
            mode,
            insts,
            key_space,
            ops,
        })
}

pub fn run(report: &mut Report) {
    report.set_rule(
        "op sequences (3..=28 ops; thorough 3..=48) over 2-3 TableStore instances sharing one \
         directory: get_head (kept, possibly stale afterwards), save of 0..14 entries from the kept \
         table, drop+reload of an instance; three generator modes: sequential (always refreshed \
         heads, small key space), stale writers with write-once keys (exact oracle, F2 impossible), \
         stale writers overwriting a small key space (F2 territory; failures matching the F2 \
         signature are counted as known hits, not as passes). Oracle: causal history of writes. \
         non-trivial = get_head() merged >=2 divergent heads, or a save squashed ancestor segments",
    );
    report.assume(
        "reading the names in <dir>/heads before get_head() tells which head tables get_head() merges \
         (used only to attribute a wrong value to a merged head for the F2 signature and to compute \
         the expected causal history)",
    );
    let tier = report.tier;
    let max_ops = tier.pick_usize(28, 48);
    if !report.is_replay() {
        // Stored witnesses were replayed in this process before the main run.
        HITS_F2.store(0, Ordering::Relaxed);
        HITS_HEADS_LOST.store(0, Ordering::Relaxed);
        for c in &HITS_BY_MODE {
            c.store(0, Ordering::Relaxed);
        }
    }
    report.prop(
        "histories",
        tier.pick(8_000, 400_000),
        move || case_strategy(max_ops),
        check,
    );
    // Includes shrinking-free known hits only; replayed witnesses are excluded
    // because replays run in their own Report.
    if !report.is_replay() {
        report.add_class("ended-in-known:F2-superseded-value", HITS_F2.load(Ordering::Relaxed));
        report.add_class(
            "ended-in-known:heads-lost-after-merge",
            HITS_HEADS_LOST.load(Ordering::Relaxed),
        );
        for (i, name) in ["sequential", "stale-fresh-keys", "stale-mixed"].iter().enumerate() {
            report.add_class(
                &format!("ended-in-known:mode:{name}"),
                HITS_BY_MODE[i].load(Ordering::Relaxed),
            );
        }
    }
}
