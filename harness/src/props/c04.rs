//! C04 File content merge obeys the merge identity laws.

use bstr::BString;
use jj_lib::diff::ContentDiff;
use jj_lib::diff::DiffHunkKind;
use jj_lib::files;
use jj_lib::files::FileMergeHunkLevel;
use jj_lib::files::MergeResult;
use jj_lib::merge::Merge;
use jj_lib::merge::SameChange;
use jj_lib::tree_merge::MergeOptions;
use proptest::prelude::*;
use serde::Deserialize;
use serde::Serialize;

use crate::engine::runner::CheckResult;
use crate::engine::runner::Outcome;
use crate::engine::runner::Report;
use crate::engine::runner::Violation;
use crate::ensure;
use crate::ensure_eq;
use crate::gens::content::Bytes;
use crate::gens::merge_content;
use crate::props::c02::oracle as counting_oracle;

/// A merge result in plain data: fully resolved content, or a list of hunks
/// each of which is a list of 1 (resolved) or N (unresolved) terms.
#[derive(Clone, PartialEq, Eq)]
pub enum Plain {
    Resolved(Vec<u8>),
    Conflict(Vec<Vec<Vec<u8>>>),
}

impl std::fmt::Debug for Plain {
    fn fmt(&self, f: &mut std::fmt::Formatter<'_>) -> std::fmt::Result {
        match self {
            Self::Resolved(c) => write!(f, "Resolved({:?})", bstr::BStr::new(c)),
            Self::Conflict(hunks) => {
                write!(f, "Conflict[")?;
                for h in hunks {
                    let terms: Vec<_> = h.iter().map(|t| bstr::BStr::new(t)).collect();
                    write!(f, "{terms:?} ")?;
                }
                write!(f, "]")
            }
        }
    }
}

fn plain(result: &MergeResult) -> Plain {
    match result {
        MergeResult::Resolved(c) => Plain::Resolved(c.to_vec()),
        MergeResult::Conflict(hunks) => Plain::Conflict(
            hunks
                .iter()
                .map(|h| h.as_slice().iter().map(|t| t.to_vec()).collect())
                .collect(),
        ),
    }
}

/// Re-interleaves diff-hunk contents (removes first, then adds - the order
/// `merge_inner` feeds them to the diff) into merge term order.
fn hunk_terms<'a>(contents: &[&'a [u8]], num_removes: usize) -> Vec<&'a [u8]> {
    (0..contents.len())
        .map(|t| {
            if t % 2 == 0 {
                contents[num_removes + t / 2]
            } else {
                contents[t / 2]
            }
        })
        .collect()
}

/// Inputs in the order the merge diffs them: removes, then adds.
fn diff_order<'a>(terms: &[&'a [u8]]) -> Vec<&'a [u8]> {
    let removes = terms.iter().skip(1).step_by(2).copied();
    let adds = terms.iter().step_by(2).copied();
    removes.chain(adds).collect()
}

#[derive(Default, Debug, Clone)]
pub struct RefStats {
    pub resolved_hunks: usize,
    pub unresolved_hunks: usize,
    /// Different hunks resolved by the counting rule at line level.
    pub resolved_by_rule: usize,
    /// Line hunks that only the word-level pass resolved.
    pub resolved_by_words: usize,
}

/// Tries to resolve one unresolved line hunk word by word: accepted only if
/// every word hunk resolves under the counting rule.
fn resolve_by_words(terms: &[&[u8]], accept: bool) -> Option<Vec<u8>> {
    let num_removes = terms.len() / 2;
    let inputs = diff_order(terms);
    let diff = ContentDiff::by_word(inputs.iter().copied());
    let mut out = vec![];
    for hunk in diff.hunks() {
        let contents: Vec<&[u8]> = hunk.contents.iter().map(|c| -> &[u8] { c }).collect();
        match hunk.kind {
            DiffHunkKind::Matching => out.extend_from_slice(contents[0]),
            DiffHunkKind::Different => {
                let word_terms = hunk_terms(&contents, num_removes);
                out.extend_from_slice(counting_oracle(&word_terms, accept)?);
            }
        }
    }
    Some(out)
}

/// Reference re-implementation of `files::merge_hunks` on top of the public
/// diff API and the C02 counting oracle.
pub fn reference_merge(terms: &[&[u8]], word: bool, accept: bool) -> (Plain, RefStats) {
    let n = terms.len();
    let num_removes = n / 2;
    let inputs = diff_order(terms);
    let diff = ContentDiff::by_line(inputs.iter().copied());
    let mut stats = RefStats::default();
    // coalesced output
    let mut hunks: Vec<Vec<Vec<u8>>> = vec![];
    let mut pending: Vec<u8> = vec![];
    let mut any_unresolved = false;
    for hunk in diff.hunks() {
        let contents: Vec<&[u8]> = hunk.contents.iter().map(|c| -> &[u8] { c }).collect();
        let resolved: Option<Vec<u8>> = match hunk.kind {
            DiffHunkKind::Matching => Some(contents[0].to_vec()),
            DiffHunkKind::Different => {
                let ht = hunk_terms(&contents, num_removes);
                match counting_oracle(&ht, accept) {
                    Some(c) => {
                        stats.resolved_by_rule += 1;
                        Some(c.to_vec())
                    }
                    None if word => {
                        let r = resolve_by_words(&ht, accept);
                        if r.is_some() {
                            stats.resolved_by_words += 1;
                        }
                        r
                    }
                    None => None,
                }
            }
        };
        match resolved {
            Some(c) => {
                stats.resolved_hunks += 1;
                pending.extend_from_slice(&c);
            }
            None => {
                stats.unresolved_hunks += 1;
                any_unresolved = true;
                if !pending.is_empty() {
                    hunks.push(vec![std::mem::take(&mut pending)]);
                }
                let ht = hunk_terms(&contents, num_removes);
                hunks.push(ht.iter().map(|t| t.to_vec()).collect());
            }
        }
    }
    if !any_unresolved {
        (Plain::Resolved(pending), stats)
    } else {
        if !pending.is_empty() {
            hunks.push(vec![pending]);
        }
        (Plain::Conflict(hunks), stats)
    }
}

fn find_from(haystack: &[u8], from: usize, needle: &[u8]) -> Option<usize> {
    if needle.is_empty() {
        return Some(from);
    }
    if haystack.len() < needle.len() {
        return None;
    }
    (from..=haystack.len() - needle.len()).find(|&i| &haystack[i..i + needle.len()] == needle)
}

#[derive(Debug, Clone, Serialize, Deserialize)]
pub struct Case {
    /// "cancelling" | "identical" | "general" (generator label; the laws are
    /// decided from the terms alone).
    pub kind: String,
    /// add0, remove0, add1, ...
    pub terms: Vec<Bytes>,
}

#[derive(Default)]
struct CaseStats {
    mixed: bool,
    words_resolved_more: bool,
    keep_accept_differ: bool,
    any_conflict: bool,
    any_resolved_nontrivially: bool,
    whole_trivial: bool,
}

fn check_config(
    terms: &[&[u8]],
    word: bool,
    accept: bool,
    cs: &mut CaseStats,
) -> Result<Plain, Violation> {
    let n = terms.len();
    let what = format!(
        "{}/{}",
        if word { "word" } else { "line" },
        if accept { "accept" } else { "keep" }
    );
    let options = MergeOptions {
        hunk_level: if word { FileMergeHunkLevel::Word } else { FileMergeHunkLevel::Line },
        same_change: if accept { SameChange::Accept } else { SameChange::Keep },
    };
    let inputs: Merge<&[u8]> = Merge::from_vec(terms.to_vec());
    let hunks_result = files::merge_hunks(&inputs, &options);
    let merged: Merge<BString> = files::merge(&inputs, &options);
    let tried: Option<BString> = files::try_merge(&inputs, &options);
    let got = plain(&hunks_result);

    // (a)/(b) whole-file cancellation: if the terms themselves resolve under the
    // counting rule (pairs cancel leaving one side; or, with Accept, all sides
    // made the same change), the content merge is exactly that side.
    if let Some(expected) = counting_oracle(terms, accept) {
        cs.whole_trivial = true;
        ensure!(
            got == Plain::Resolved(expected.to_vec()),
            "{what}: terms cancel to {:?} but merge_hunks gives {got:?}",
            bstr::BStr::new(expected)
        );
    }

    // (c) the three entry points agree
    match &got {
        Plain::Resolved(content) => {
            ensure!(
                tried.as_ref().map(|b| b.as_slice()) == Some(content.as_slice()),
                "{what}: merge_hunks resolved to {:?} but try_merge gives {tried:?}",
                bstr::BStr::new(content)
            );
            ensure!(
                merged.as_resolved().map(|b| b.as_slice()) == Some(content.as_slice()),
                "{what}: merge_hunks resolved to {:?} but merge gives {merged:?}",
                bstr::BStr::new(content)
            );
        }
        Plain::Conflict(hunks) => {
            ensure!(tried.is_none(), "{what}: merge_hunks conflicts but try_merge gives {tried:?}");
            // (d) same number of sides as the input
            ensure_eq!(
                merged.as_slice().len(),
                n,
                "{what}: merge() conflict has a different number of terms than the input"
            );
            let mut any_unresolved = false;
            let mut prev_resolved = false;
            let mut cursors = vec![0usize; n];
            for (k, hunk) in hunks.iter().enumerate() {
                if hunk.len() == 1 {
                    ensure!(!hunk[0].is_empty(), "{what}: hunk {k} is an empty resolved hunk in {got:?}");
                    ensure!(!prev_resolved, "{what}: hunks {} and {k} are both resolved in {got:?}", k - 1);
                    prev_resolved = true;
                    continue;
                }
                prev_resolved = false;
                any_unresolved = true;
                ensure_eq!(hunk.len(), n, "{what}: unresolved hunk {k} has wrong arity in {got:?}");
                // term i is, in order and without overlap, a slice of input i
                for i in 0..n {
                    match find_from(terms[i], cursors[i], &hunk[i]) {
                        Some(at) => cursors[i] = at + hunk[i].len(),
                        None => {
                            return Err(Violation::new(format!(
                                "{what}: unresolved hunk {k} term {i} {:?} is not a slice of input {i} at or after offset {} ({got:?})",
                                bstr::BStr::new(&hunk[i]),
                                cursors[i]
                            )));
                        }
                    }
                }
                // not trivially resolvable under the counting rule
                let ht: Vec<&[u8]> = hunk.iter().map(|t| t.as_slice()).collect();
                ensure!(
                    counting_oracle(&ht, accept).is_none(),
                    "{what}: unresolved hunk {k} is trivially resolvable in {got:?}"
                );
            }
            ensure!(any_unresolved, "{what}: Conflict without an unresolved hunk: {got:?}");
            // merge() term i = concatenation over hunks of (resolved ? content : hunk[i])
            for i in 0..n {
                let mut expected = vec![];
                for hunk in hunks {
                    expected.extend_from_slice(if hunk.len() == 1 { &hunk[0] } else { &hunk[i] });
                }
                ensure!(
                    merged.as_slice()[i].as_slice() == expected.as_slice(),
                    "{what}: merge() term {i} is {:?}, hunks give {:?} ({got:?})",
                    merged.as_slice()[i],
                    bstr::BStr::new(&expected)
                );
            }
        }
    }

    // (e) reference re-implementation
    let (expected, stats) = reference_merge(terms, word, accept);
    ensure!(
        got == expected,
        "{what}: merge_hunks gives {got:?}, reference (by_line hunks + counting rule) gives {expected:?}"
    );
    cs.mixed |= stats.unresolved_hunks > 0 && stats.resolved_by_rule + stats.resolved_by_words > 0;
    cs.words_resolved_more |= stats.resolved_by_words > 0;
    cs.any_conflict |= stats.unresolved_hunks > 0;
    cs.any_resolved_nontrivially |= stats.unresolved_hunks == 0
        && stats.resolved_by_rule + stats.resolved_by_words > 0
        && counting_oracle(terms, accept).is_none();
    Ok(got)
}

fn check(case: &Case) -> CheckResult {
    let terms: Vec<&[u8]> = case.terms.iter().map(|b| b.0.as_slice()).collect();
    let n = terms.len();
    ensure!(n % 2 == 1, "generator bug: even number of terms");
    // generator post-conditions (so that a broken generator cannot silently
    // stop exercising the identity laws)
    match case.kind.as_str() {
        "cancelling" => ensure!(
            counting_oracle(&terms, false).is_some(),
            "generator bug: cancelling case does not cancel"
        ),
        "identical" => ensure!(
            terms.iter().step_by(2).all(|t| *t == terms[0]),
            "generator bug: sides not identical"
        ),
        _ => {}
    }
    let mut cs = CaseStats::default();
    let mut results = vec![];
    for word in [false, true] {
        for accept in [false, true] {
            results.push(((word, accept), check_config(&terms, word, accept, &mut cs)?));
        }
    }
    let get = |word: bool, accept: bool| -> &Plain {
        &results.iter().find(|(k, _)| *k == (word, accept)).unwrap().1
    };
    // Resolution is monotone: whatever Keep resolves, Accept resolves the same
    // way; whatever the line level resolves, the word level resolves the same way.
    for word in [false, true] {
        if let r @ Plain::Resolved(_) = get(word, false) {
            ensure!(get(word, true) == r, "Keep resolves to {r:?} but Accept gives {:?}", get(word, true));
        }
        cs.keep_accept_differ |= get(word, false) != get(word, true);
    }
    for accept in [false, true] {
        if let r @ Plain::Resolved(_) = get(false, accept) {
            ensure!(get(true, accept) == r, "line level resolves to {r:?} but word level gives {:?}", get(true, accept));
        }
    }
    // all terms identical => that content (law (b), trivial half)
    if terms.iter().all(|t| *t == terms[0]) {
        ensure!(
            *get(false, false) == Plain::Resolved(terms[0].to_vec()),
            "all terms identical but merge gives {:?}",
            get(false, false)
        );
    }
    // Observation only (not asserted, see run()): identical sides that jj leaves
    // conflicted even under Accept because the bases hold >= 2 other values.
    let identical_sides_conflict = n >= 3
        && terms.iter().step_by(2).all(|t| *t == terms[0])
        && matches!(get(false, true), Plain::Conflict(_));
    let nontrivial = n >= 5 || cs.mixed;
    Ok(Outcome::new(nontrivial)
        .class_if(case.kind == "cancelling", "gen:cancelling")
        .class_if(case.kind == "identical", "gen:identical")
        .class_if(case.kind == "general", "gen:general")
        .class_if(n == 3, "terms=3")
        .class_if(n == 5, "terms=5")
        .class_if(n == 7, "terms=7")
        .class_if(n >= 9, "terms=9")
        .class_if(cs.whole_trivial, "terms-cancel-as-whole")
        .class_if(cs.mixed, "resolved+unresolved-hunks")
        .class_if(cs.words_resolved_more, "word-level-resolves-a-line-conflict")
        .class_if(cs.keep_accept_differ, "keep!=accept")
        .class_if(cs.any_conflict, "some-config-conflicts")
        .class_if(cs.any_resolved_nontrivially, "resolved-hunkwise-not-as-whole")
        .class_if(identical_sides_conflict, "identical-sides-conflict-under-accept(>=5 terms)"))
}

fn strategy() -> impl Strategy<Value = Case> {
    prop_oneof![
        3 => merge_content::cancelling().prop_map(|terms| Case { kind: "cancelling".into(), terms }),
        1 => merge_content::identical_sides().prop_map(|terms| Case { kind: "identical".into(), terms }),
        5 => merge_content::general().prop_map(|terms| Case { kind: "general".into(), terms }),
    ]
}

pub fn run(report: &mut Report) {
    report.set_rule(
        "file merges with 3/5/7 (rarely 9) terms from three generators (cancelling pairs + one \
         leftover side at random positions; identical sides; independent line- or word-level edits \
         of a common base incl. CRLF/odd/binary contents, with copied terms); each case is merged \
         at Line and Word hunk level under Keep and Accept through merge_hunks, merge and \
         try_merge; non-trivial = >=5 terms, or a result with both rule-resolved and unresolved \
         hunks; distinct by term list",
    );
    report.assume(
        "the reference merge uses jj's own ContentDiff::by_line/by_word hunks (covered by C03) and \
         the C02 counting oracle; it is independent of resolve_diff_hunks, merge_hunk_by_word and \
         the collect_* functions",
    );
    report.assume(
        "identity law for identical sides is asserted where the whole-file counting rule resolves \
         (3 terms under Accept; more terms when the bases leave at most one other value); for >=5 \
         terms with several distinct bases jj's rule leaves the hunk unresolved and nothing is asserted",
    );
    let cases = report.tier.pick(24_000, 1_000_000);
    report.prop("merge", cases, strategy, check);
}
