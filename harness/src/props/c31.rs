//! C31 Fileset expressions select the paths their definition says.
//!
//! Fileset *source strings* are generated from the grammar, parsed by
//! `fileset::parse` with a random working directory, and the resulting matcher
//! is compared path by path with a reference evaluator that has its own AST, its
//! own lexical normalisation of cwd-relative input and its own glob matcher
//! (`model::globref`).

use std::collections::BTreeSet;
use std::path::PathBuf;

use jj_lib::fileset;
use jj_lib::fileset::FilesetAliasesMap;
use jj_lib::fileset::FilesetDiagnostics;
use jj_lib::fileset::FilesetParseContext;
use jj_lib::repo_path::RepoPathBuf;
use jj_lib::repo_path::RepoPathUiConverter;
use proptest::prelude::*;
use serde::Deserialize;
use serde::Serialize;

use crate::engine::runner::CheckResult;
use crate::engine::runner::Outcome;
use crate::engine::runner::Report;
use crate::engine::runner::Violation;
use crate::engine::runner::pick;
use crate::model::globref::Comp;
use crate::model::globref::GlobError;
use crate::model::globref::has_glob_meta;
use crate::model::globref::match_path;
use crate::model::globref::match_path_lenient;
use crate::model::globref::match_prefix;
use crate::model::globref::match_prefix_lenient;
use crate::model::globref::parse_component;

/// Known deviation from Unix glob semantics inherited from globset: a negated
/// character class compiles to `[^..]`, which also matches `/` although the
/// globs are built with `literal_separator(true)`.
pub const SIG_NEGCLASS: &str = "C31-negated-class-matches-separator";

/// The workspace root in the model file system.
const BASE: [&str; 2] = ["home", "ws"];

const NAMES: [&str; 10] = ["a", "b", "ab", "a.rs", "A", "aB", "B.RS", "1", "日", "a*"];

/// (name as written, workspace-rooted, glob syntax, prefix anchor, case-insensitive)
const KINDS: [(&str, bool, bool, bool, bool); 19] = [
    ("", false, true, true, false),
    ("", false, true, true, false),
    ("cwd", false, false, true, false),
    ("file", false, false, false, false),
    ("cwd-file", false, false, false, false),
    ("glob", false, true, false, false),
    ("cwd-glob", false, true, false, false),
    ("glob-i", false, true, false, true),
    ("cwd-glob-i", false, true, false, true),
    ("prefix-glob", false, true, true, false),
    ("cwd-prefix-glob", false, true, true, false),
    ("prefix-glob-i", false, true, true, true),
    ("cwd-prefix-glob-i", false, true, true, true),
    ("root", true, false, true, false),
    ("root-file", true, false, false, false),
    ("root-glob", true, true, false, false),
    ("root-glob-i", true, true, false, true),
    ("root-prefix-glob", true, true, true, false),
    ("root-prefix-glob-i", true, true, true, true),
];

#[derive(Clone, Copy, Debug)]
struct KindInfo {
    rooted: bool,
    glob: bool,
    prefix: bool,
    icase: bool,
}

fn kind_info(kind: &str) -> Option<KindInfo> {
    KINDS
        .iter()
        .find(|k| k.0 == kind)
        .map(|&(_, rooted, glob, prefix, icase)| KindInfo { rooted, glob, prefix, icase })
}

#[derive(Debug, Clone, Copy, PartialEq, Eq, Serialize, Deserialize)]
pub enum Quote {
    Bare,
    Double,
    Single,
}

#[derive(Debug, Clone, Serialize, Deserialize)]
pub struct PatSpec {
    /// Pattern kind as written before the colon; "" = no kind prefix.
    pub kind: String,
    pub text: String,
    pub quote: Quote,
}

#[derive(Debug, Clone, Serialize, Deserialize)]
pub enum Ast {
    All,
    None,
    Pat(PatSpec),
    Not(Box<Ast>),
    And(Box<Ast>, Box<Ast>),
    Diff(Box<Ast>, Box<Ast>),
    Or(Box<Ast>, Box<Ast>),
    /// Redundant parentheses in the source text.
    Paren(Box<Ast>),
}

#[derive(Debug, Clone, Serialize, Deserialize)]
pub struct Case {
    /// Absolute components of the working directory (the workspace is /home/ws).
    pub cwd: Vec<String>,
    pub expr: Ast,
    /// Number of blanks at successive optional-whitespace positions (cycled).
    pub spaces: Vec<u8>,
    /// Extra universe paths (workspace-relative, `/`-separated).
    pub extra: Vec<String>,
}

// ---------------------------------------------------------------------------
// Rendering to fileset source text
// ---------------------------------------------------------------------------

fn bare_ok(text: &str) -> bool {
    // identifier = (XID_CONTINUE | + - . @ _ * ? [ ] / \)+ ; restricted here to
    // what the generator emits
    !text.is_empty()
        && text.chars().all(|c| {
            c.is_ascii_alphanumeric()
                || matches!(c, '+' | '-' | '.' | '@' | '_' | '*' | '?' | '[' | ']' | '/' | '\\')
                || c == '日'
        })
}

fn render_pat(p: &PatSpec, out: &mut String) {
    if !p.kind.is_empty() {
        out.push_str(&p.kind);
        out.push(':');
    }
    match p.quote {
        Quote::Bare => out.push_str(&p.text),
        Quote::Single => {
            out.push('\'');
            out.push_str(&p.text);
            out.push('\'');
        }
        Quote::Double => {
            out.push('"');
            for c in p.text.chars() {
                match c {
                    '"' => out.push_str("\\\""),
                    '\\' => out.push_str("\\\\"),
                    c => out.push(c),
                }
            }
            out.push('"');
        }
    }
}

struct Spaces<'a> {
    v: &'a [u8],
    i: usize,
}

impl Spaces<'_> {
    fn emit(&mut self, out: &mut String) {
        let n = if self.v.is_empty() { 1 } else { self.v[self.i % self.v.len()] % 3 };
        self.i += 1;
        for _ in 0..n {
            out.push(' ');
        }
    }
}

fn level(a: &Ast) -> u8 {
    match a {
        Ast::Or(..) => 1,
        Ast::And(..) | Ast::Diff(..) => 2,
        Ast::Not(_) => 3,
        _ => 4,
    }
}

fn render_child(a: &Ast, paren: bool, out: &mut String, sp: &mut Spaces) {
    if paren {
        out.push('(');
        sp.emit(out);
        render(a, out, sp);
        sp.emit(out);
        out.push(')');
    } else {
        render(a, out, sp);
    }
}

fn render(a: &Ast, out: &mut String, sp: &mut Spaces) {
    match a {
        Ast::All => out.push_str("all()"),
        Ast::None => out.push_str("none()"),
        Ast::Pat(p) => render_pat(p, out),
        Ast::Paren(x) => render_child(x, true, out, sp),
        Ast::Not(x) => {
            out.push('~');
            sp.emit(out);
            render_child(x, level(x) < 3, out, sp);
        }
        Ast::And(l, r) | Ast::Diff(l, r) | Ast::Or(l, r) => {
            let lv = level(a);
            // infix operators are left-associative
            render_child(l, level(l) < lv, out, sp);
            sp.emit(out);
            out.push(match a {
                Ast::And(..) => '&',
                Ast::Diff(..) => '~',
                _ => '|',
            });
            sp.emit(out);
            render_child(r, level(r) <= lv, out, sp);
        }
    }
}

pub fn source_text(case: &Case) -> String {
    let mut out = String::new();
    let mut sp = Spaces { v: &case.spaces, i: 0 };
    sp.emit(&mut out);
    render(&case.expr, &mut out, &mut sp);
    sp.emit(&mut out);
    out
}

// ---------------------------------------------------------------------------
// Reference semantics
// ---------------------------------------------------------------------------

#[derive(Debug, Clone)]
struct RefPat {
    comps: Vec<Comp>,
    prefix: bool,
}

#[derive(Debug, Clone)]
enum Verdict {
    /// Must be accepted with exactly this meaning.
    Ok(RefPat),
    /// jj may reject it (reason); if it accepts and a meaning is given, that
    /// meaning is compared.
    May(Option<RefPat>, &'static str),
    /// Must be rejected.
    Must(&'static str),
    /// Outside the syntax the reference defines.
    Unsupported,
}

fn has_ascii_letter(s: &str) -> bool {
    s.chars().any(|c| c.is_ascii_alphabetic())
}

fn resolve(kind: &str, text: &str, cwd: &[String]) -> Verdict {
    let Some(info) = kind_info(kind) else {
        return Verdict::Must("unknown pattern kind");
    };
    let absolute = text.starts_with('/');
    let raw: Vec<&str> = text.split('/').filter(|c| !c.is_empty()).collect();
    // The literal head is resolved lexically; the rest is the glob proper. In a
    // case-insensitive glob a name with letters already belongs to the glob.
    let starts_glob =
        |c: &str| info.glob && (has_glob_meta(c) || (info.icase && has_ascii_letter(c)));
    let split = raw.iter().position(|c| starts_glob(c)).unwrap_or(raw.len());
    let (head, tail) = raw.split_at(split);

    // glob proper
    let mut tail_comps = vec![];
    let mut tail_dotdot = false;
    let mut malformed = false;
    for c in tail {
        match *c {
            "." => {}
            ".." => tail_dotdot = true,
            "**" => tail_comps.push(Comp::DoubleStar),
            c if has_glob_meta(c) => match parse_component(c) {
                Ok(toks) => tail_comps.push(Comp::Glob { toks, icase: info.icase }),
                Err(GlobError::Malformed(_)) => malformed = true,
                Err(GlobError::Unsupported(_)) => return Verdict::Unsupported,
            },
            c => tail_comps.push(Comp::Lit { name: c.to_string(), icase: info.icase }),
        }
    }
    if malformed {
        return Verdict::Must("malformed glob");
    }

    // literal head
    let mut may: Option<&'static str> = None;
    let rel: Vec<String> = if info.rooted {
        if absolute {
            return Verdict::May(None, "absolute input to a root-relative kind");
        }
        if raw.contains(&"..") {
            return Verdict::May(None, "'..' in a root-relative kind");
        }
        if head.first() == Some(&".") && head.iter().any(|c| *c != ".") {
            may = Some("leading './' in a root-relative kind");
        }
        head.iter().filter(|c| **c != ".").map(|c| c.to_string()).collect()
    } else {
        let mut stack: Vec<String> = if absolute { vec![] } else { cwd.to_vec() };
        for c in head {
            match *c {
                "." => {}
                ".." => {
                    if stack.pop().is_none() {
                        return Verdict::Must("input climbs above the file system root");
                    }
                }
                c => stack.push(c.to_string()),
            }
        }
        let inside = stack.len() >= BASE.len() && stack.iter().zip(BASE).all(|(a, b)| a == b);
        if !inside {
            return if tail.is_empty() {
                Verdict::Must("path is outside the workspace")
            } else {
                // the glob proper might lead back into the workspace; jj
                // refuses, and no meaning is claimed here
                Verdict::May(None, "literal head of the glob is outside the workspace")
            };
        }
        stack[BASE.len()..].to_vec()
    };
    if tail_dotdot {
        return Verdict::May(None, "'..' after the literal head of a glob");
    }
    let mut comps: Vec<Comp> = rel
        .into_iter()
        .map(|name| Comp::Lit { name, icase: false })
        .collect();
    comps.extend(tail_comps);
    let pat = RefPat { comps, prefix: info.prefix };
    match may {
        Some(reason) => Verdict::May(Some(pat), reason),
        None => Verdict::Ok(pat),
    }
}

#[derive(Debug, Clone)]
enum RAst {
    All,
    None,
    Pat(RefPat),
    Not(Box<RAst>),
    And(Box<RAst>, Box<RAst>),
    Diff(Box<RAst>, Box<RAst>),
    Or(Box<RAst>, Box<RAst>),
}

#[derive(Default)]
struct Summary {
    must: Vec<&'static str>,
    may: Vec<&'static str>,
    undenotable: bool,
    unsupported: bool,
    kinds: BTreeSet<String>,
    operators: u32,
    single_char_wildcard: bool,
    negated_class: bool,
    icase: bool,
    prefix_glob: bool,
    doublestar: bool,
    dotdot: bool,
    absolute: bool,
    escape: bool,
}

fn resolve_ast(a: &Ast, cwd: &[String], s: &mut Summary) -> RAst {
    match a {
        Ast::All => RAst::All,
        Ast::None => RAst::None,
        Ast::Paren(x) => resolve_ast(x, cwd, s),
        Ast::Not(x) => {
            s.operators += 1;
            RAst::Not(Box::new(resolve_ast(x, cwd, s)))
        }
        Ast::And(l, r) | Ast::Diff(l, r) | Ast::Or(l, r) => {
            s.operators += 1;
            let (l2, r2) = (Box::new(resolve_ast(l, cwd, s)), Box::new(resolve_ast(r, cwd, s)));
            match a {
                Ast::And(..) => RAst::And(l2, r2),
                Ast::Diff(..) => RAst::Diff(l2, r2),
                _ => RAst::Or(l2, r2),
            }
        }
        Ast::Pat(p) => {
            let canonical = match kind_info(&p.kind) {
                Some(i) => format!("{}{}{}{}", i.rooted, i.glob, i.prefix, i.icase),
                None => p.kind.clone(),
            };
            s.kinds.insert(canonical);
            s.dotdot |= p.text.split('/').any(|c| c == "..");
            s.absolute |= p.text.starts_with('/');
            let is_glob_kind = kind_info(&p.kind).is_some_and(|i| i.glob);
            s.escape |= is_glob_kind && p.text.contains('\\');
            let pat = match resolve(&p.kind, &p.text, cwd) {
                Verdict::Ok(pat) => Some(pat),
                Verdict::May(pat, reason) => {
                    s.may.push(reason);
                    pat
                }
                Verdict::Must(reason) => {
                    s.must.push(reason);
                    None
                }
                Verdict::Unsupported => {
                    s.unsupported = true;
                    None
                }
            };
            match pat {
                Some(pat) => {
                    let globby = pat.comps.iter().any(|c| !matches!(c, Comp::Lit { .. }));
                    s.single_char_wildcard |= pat.comps.iter().any(Comp::has_single_char_wildcard);
                    s.negated_class |= pat.comps.iter().any(Comp::has_negated_class);
                    s.doublestar |= pat.comps.contains(&Comp::DoubleStar);
                    s.icase |= kind_info(&p.kind).is_some_and(|i| i.icase);
                    s.prefix_glob |= pat.prefix && globby;
                    RAst::Pat(pat)
                }
                None => {
                    s.undenotable = true;
                    RAst::None
                }
            }
        }
    }
}

fn eval(a: &RAst, path: &[&str], lenient: bool) -> bool {
    match a {
        RAst::All => true,
        RAst::None => false,
        RAst::Pat(p) => match (p.prefix, lenient) {
            (false, false) => match_path(&p.comps, path),
            (true, false) => match_prefix(&p.comps, path),
            (false, true) => match_path_lenient(&p.comps, path),
            (true, true) => match_prefix_lenient(&p.comps, path),
        },
        RAst::Not(x) => !eval(x, path, lenient),
        RAst::And(l, r) => eval(l, path, lenient) && eval(r, path, lenient),
        RAst::Diff(l, r) => eval(l, path, lenient) && !eval(r, path, lenient),
        RAst::Or(l, r) => eval(l, path, lenient) || eval(r, path, lenient),
    }
}

fn universe(case: &Case) -> BTreeSet<String> {
    let mut u = BTreeSet::new();
    for a in NAMES {
        u.insert(a.to_string());
        for b in NAMES {
            u.insert(format!("{a}/{b}"));
        }
    }
    // everything one and two levels below the working directory
    let inside = case.cwd.len() >= BASE.len() && case.cwd.iter().zip(BASE).all(|(a, b)| a == b);
    if inside && case.cwd.len() > BASE.len() {
        let rel = case.cwd[BASE.len()..].join("/");
        u.insert(rel.clone());
        for a in NAMES {
            u.insert(format!("{rel}/{a}"));
            for b in NAMES {
                u.insert(format!("{rel}/{a}/{b}"));
            }
        }
    }
    for p in &case.extra {
        if !p.is_empty() && !p.split('/').any(|c| c.is_empty()) {
            u.insert(p.clone());
        }
    }
    u
}

fn check(case: &Case) -> CheckResult {
    let text = source_text(case);
    let mut s = Summary::default();
    let rast = resolve_ast(&case.expr, &case.cwd, &mut s);
    if s.unsupported {
        return Ok(Outcome::trivial().class("skipped:unsupported-glob-syntax"));
    }

    let base: PathBuf = format!("/{}", BASE.join("/")).into();
    let cwd: PathBuf = format!("/{}", case.cwd.join("/")).into();
    let converter = RepoPathUiConverter::Fs { cwd, base };
    let aliases = FilesetAliasesMap::new();
    let context = FilesetParseContext {
        aliases_map: &aliases,
        path_converter: &converter,
    };
    let mut diagnostics = FilesetDiagnostics::new();
    let parsed = fileset::parse(&mut diagnostics, &text, &context);
    let expr = match parsed {
        Err(err) => {
            if !s.must.is_empty() {
                return Ok(Outcome::trivial().class("error:required-and-reported"));
            }
            if !s.may.is_empty() {
                let mut out = Outcome::trivial().class("error:tolerated");
                for reason in &s.may {
                    out = out.class(reason);
                }
                return Ok(out);
            }
            let source = std::error::Error::source(&err).map(|e| e.to_string()).unwrap_or_default();
            return Err(Violation::new(format!(
                "fileset {text:?} (cwd /{}) was rejected although it denotes paths inside the \
                 workspace: {err} [{source}]",
                case.cwd.join("/")
            )));
        }
        Ok(expr) => expr,
    };
    if let Some(reason) = s.must.first() {
        return Err(Violation::new(format!(
            "fileset {text:?} (cwd /{}) was accepted but must be rejected: {reason}",
            case.cwd.join("/")
        )));
    }
    if s.undenotable {
        return Ok(Outcome::trivial().class("skipped:accepted-without-reference-meaning"));
    }
    let matcher = expr.to_matcher();

    let uni = universe(case);
    let mut matched = 0usize;
    let mut known: Option<String> = None;
    for p in &uni {
        if s.single_char_wildcard && !p.is_ascii() {
            // `?`/classes are byte-wise in regex::bytes; not judged
            continue;
        }
        let comps: Vec<&str> = p.split('/').collect();
        let want = eval(&rast, &comps, false);
        let repo_path = RepoPathBuf::from_internal_string(p.as_str())
            .map_err(|e| Violation::new(format!("harness: bad universe path {p:?}: {e}")))?;
        let got = matcher.matches(&repo_path);
        matched += usize::from(got);
        if got != want {
            let msg = format!(
                "fileset {text:?} with cwd /{}: matches({p:?}) = {got}, reference says {want}",
                case.cwd.join("/")
            );
            if s.negated_class && eval(&rast, &comps, true) == got {
                known.get_or_insert(msg);
                continue;
            }
            return Err(Violation::new(msg));
        }
    }
    if let Some(msg) = known {
        return Err(Violation::known(SIG_NEGCLASS, msg));
    }

    let cwd_is_root = case.cwd.len() == BASE.len() && case.cwd.iter().zip(BASE).all(|(a, b)| a == b);
    let nontrivial = s.kinds.len() >= 2 && s.operators >= 1 && !cwd_is_root;
    let mut out = Outcome::new(nontrivial)
        .class("evaluated")
        .class_if(matched > 0 && matched < uni.len(), "matches-some-not-all")
        .class_if(matched == 0, "matches-nothing")
        .class_if(matched == uni.len(), "matches-everything")
        .class_if(s.icase, "has-icase-glob")
        .class_if(s.prefix_glob, "has-prefix-glob")
        .class_if(s.doublestar, "has-doublestar")
        .class_if(s.negated_class, "has-negated-class")
        .class_if(s.dotdot, "has-dotdot")
        .class_if(s.absolute, "has-absolute-input")
        .class_if(s.escape, "has-glob-escape")
        .class_if(case.cwd.len() > BASE.len(), "cwd-below-root")
        .class_if(case.cwd.len() < BASE.len() || !case.cwd.iter().zip(BASE).all(|(a, b)| a == b), "cwd-outside-workspace")
        .class_if(s.operators >= 3, "operators>=3")
        .class_if(s.kinds.len() >= 3, "kinds>=3");
    if !s.may.is_empty() {
        out = out.class("accepted-although-error-tolerated");
    }
    Ok(out)
}

// ---------------------------------------------------------------------------
// Generator
// ---------------------------------------------------------------------------

const GLOB_COMPS: [&str; 30] = [
    "*", "?", "a*", "*b", "*.rs", "*.RS", "a?", "?b", "??", "[ab]", "[!a]", "[a-b]*", "[A-Z]*",
    "[!a-z]", "{a,b}", "{a,ab}*", "{a.rs,B}", "*.*", "**", "**", "**", "A*", "a\\*", "\\a",
    "*[!a]*", "[0-9]", "{a*,?B}", "?.rs", "a.r[s-t]", "*B*",
];

const GLOB_ATOMS: [&str; 19] = [
    "a", "b", "A", "B", ".rs", ".RS", "*", "*", "?", "[ab]", "[!a]", "[!b]", "[a-c]", "{a,b}",
    "{ab,a}", "\\*", "\\a", "1", "日",
];

const MALFORMED: [&str; 5] = ["[a", "{a", "a}", "a\\", "[c-a]"];

fn arb_name() -> impl Strategy<Value = String> {
    any::<u16>().prop_map(|r| NAMES[pick(r, NAMES.len())].to_string())
}

fn arb_glob_comp() -> impl Strategy<Value = String> {
    prop_oneof![
        3 => any::<u16>().prop_map(|r| GLOB_COMPS[pick(r, GLOB_COMPS.len())].to_string()),
        2 => prop::collection::vec(any::<u16>(), 1..=3).prop_map(|v| {
            v.into_iter().map(|r| GLOB_ATOMS[pick(r, GLOB_ATOMS.len())]).collect::<String>()
        }),
    ]
}

fn arb_comp(globby: bool) -> impl Strategy<Value = String> {
    let (name_w, glob_w) = if globby { (44, 47) } else { (85, 6) };
    prop_oneof![
        name_w => arb_name(),
        glob_w => arb_glob_comp(),
        4 => Just(".".to_string()),
        2 => Just("..".to_string()),
        3 => Just(String::new()),
    ]
}

fn arb_lead(rooted: bool) -> BoxedStrategy<&'static str> {
    if rooted {
        prop_oneof![
            88 => Just(""),
            5 => Just("./"),
            3 => Just("../"),
            3 => Just("/home/ws/"),
            1 => Just("/"),
        ]
        .boxed()
    } else {
        prop_oneof![
            120 => Just(""),
            30 => Just("../"),
            10 => Just("../../"),
            2 => Just("../../../"),
            10 => Just("./"),
            12 => Just("/home/ws/"),
            2 => Just("/home/other/"),
            1 => Just("/"),
            4 => Just("../ws/"),
        ]
        .boxed()
    }
}

fn arb_text(globby: bool, rooted: bool) -> impl Strategy<Value = String> {
    (
        arb_lead(rooted),
        prop::collection::vec(arb_comp(globby), 0..=4),
        prop::bool::weighted(0.06),
        any::<u16>(),
    )
        .prop_map(move |(lead, comps, trailing, malformed)| {
            let mut comps = comps;
            // ~1.2% of the glob texts end in a malformed component
            if globby && malformed < 800 {
                comps.push(MALFORMED[pick(malformed.wrapping_mul(81), MALFORMED.len())].to_string());
            }
            let mut text = format!("{lead}{}", comps.join("/"));
            if trailing && !text.ends_with('\\') {
                text.push('/');
            }
            text
        })
}

fn arb_pat() -> impl Strategy<Value = PatSpec> {
    any::<u16>()
        .prop_flat_map(|k| {
            let (kind, rooted, glob, _, _) = KINDS[pick(k, KINDS.len())];
            (Just(kind), arb_text(glob, rooted), 0u8..3)
        })
        .prop_map(|(kind, text, q)| {
            let quote = match q {
                0 if bare_ok(&text) => Quote::Bare,
                1 if !text.contains('\'') => Quote::Single,
                _ => Quote::Double,
            };
            PatSpec { kind: kind.to_string(), text, quote }
        })
}

fn arb_ast() -> impl Strategy<Value = Ast> {
    let leaf = prop_oneof![
        88 => arb_pat().prop_map(Ast::Pat),
        6 => Just(Ast::All),
        6 => Just(Ast::None),
    ];
    leaf.prop_recursive(4, 16, 2, |inner| {
        prop_oneof![
            15 => inner.clone().prop_map(|x| Ast::Not(Box::new(x))),
            22 => (inner.clone(), inner.clone()).prop_map(|(a, b)| Ast::And(Box::new(a), Box::new(b))),
            22 => (inner.clone(), inner.clone()).prop_map(|(a, b)| Ast::Diff(Box::new(a), Box::new(b))),
            30 => (inner.clone(), inner.clone()).prop_map(|(a, b)| Ast::Or(Box::new(a), Box::new(b))),
            11 => inner.prop_map(|x| Ast::Paren(Box::new(x))),
        ]
    })
}

fn arb_cwd() -> impl Strategy<Value = Vec<String>> {
    let base = || BASE.iter().map(|s| s.to_string()).collect::<Vec<_>>();
    prop_oneof![
        13 => Just(base()),
        38 => arb_name().prop_map(move |a| [base(), vec![a]].concat()),
        45 => (arb_name(), arb_name()).prop_map(move |(a, b)| [base(), vec![a, b]].concat()),
        2 => Just(vec!["home".to_string()]),
        1 => Just(vec!["home".to_string(), "other".to_string()]),
        1 => Just(vec![]),
    ]
}

fn arb_case() -> impl Strategy<Value = Case> {
    (
        arb_cwd(),
        arb_ast(),
        prop::collection::vec(0u8..3, 1..=8),
        prop::collection::vec(
            prop::collection::vec(arb_name(), 1..=4).prop_map(|v| v.join("/")),
            0..=8,
        ),
    )
        .prop_map(|(cwd, expr, spaces, extra)| Case { cwd, expr, spaces, extra })
}

pub fn run(report: &mut Report) {
    report.set_rule(
        "fileset source strings generated from the grammar (all 12 pattern kinds plus the cwd- \
         aliases and the kind-less default, bare / double-quoted / raw strings, ~ & | and infix ~, \
         all() none(), necessary and redundant parentheses, 0-2 blanks at every optional position) \
         with inputs containing . .. // trailing / and absolute paths, parsed from a random cwd \
         (workspace root, depth 1-2 below it, or outside); universe = all paths of depth <= 2 over \
         10 names (case variants, a digit, a CJK name, a name containing '*'), everything up to two \
         levels below the cwd and up to 8 random paths of depth <= 4; matches(p) is compared with \
         the reference for every universe path; non-trivial = >= 2 semantically different pattern \
         kinds, >= 1 operator, cwd != workspace root, and the expression was evaluated",
    );
    report.assume(
        "reference glob semantics: component-wise Unix matching of * ? [set] [!set] [a-c] {a,b} \\x \
         and whole-component **, ASCII case folding for -i; other glob syntax is not generated",
    );
    report.assume(
        "errors are tolerated (not required) for: root-relative kinds given an absolute path, '..' \
         or a leading './'; '..' after the literal head of a glob; a glob whose literal head is \
         outside the workspace. Errors are required for paths outside the workspace and malformed \
         globs. `?` and classes are not judged on non-ASCII paths (byte-wise in regex::bytes)",
    );
    let cases = report.tier.pick(60_000, 3_000_000);
    report.prop("random", cases, arb_case, check);
}
