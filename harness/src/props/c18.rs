//! C18 The commit index answers exactly as the commit graph.
//!
//! A model DAG (BFS over parent pointers, `model::dag::Dag`) is written into a
//! repo (real op store / op heads / default index store on disk over the in-memory
//! `model::prefix_backend`) over a generated sequence of transactions: sequential ones (so index
//! segments stack and get squashed), groups of concurrent transactions started
//! from the same base (merged by `reload_at_head` / a fresh loader), and reloads
//! from disk at generated points. After every step the index (mutable index in the
//! open transaction, readonly index after commit, reloaded index) is queried
//! through the public `Index` / `ChangeIdIndex` traits and `DefaultReadonlyIndex`
//! and compared with the model.

use std::collections::BTreeMap;
use std::collections::BTreeSet;
use std::ops::Range;
use std::sync::Arc;

use jj_lib::backend::ChangeId;
use jj_lib::backend::CommitId;
use jj_lib::commit::Commit;
use jj_lib::config::ConfigLayer;
use jj_lib::config::ConfigSource;
use jj_lib::default_index::DefaultReadonlyIndex;
use jj_lib::index::ChangeIdIndex;
use jj_lib::index::Index;
use jj_lib::index::MutableIndex;
use jj_lib::index::ReadonlyIndex;
use jj_lib::index::ResolvedChangeState;
use jj_lib::object_id::HexPrefix;
use jj_lib::object_id::PrefixResolution;
use jj_lib::repo::MutableRepo;
use jj_lib::repo::ReadonlyRepo;
use jj_lib::repo::Repo as _;
use jj_lib::settings::UserSettings;
use pollster::FutureExt as _;
use proptest::prelude::*;
use serde::Deserialize;
use serde::Serialize;

use crate::engine::runner::CheckResult;
use crate::engine::runner::Outcome;
use crate::engine::runner::Report;
use crate::engine::runner::Violation;
use crate::engine::runner::pick;
use crate::ensure;
use crate::ensure_eq;
use crate::model::dag::BASE_TS;
use crate::model::dag::BuildOpts;
use crate::model::dag::Dag;
use crate::model::dag::change_id;
use crate::model::dag::signature;
use crate::model::dag::write_nodes;
use crate::model::prefix_backend::COMMIT_ID_LENGTH;
use crate::model::prefix_backend::PrefixRepo;

// ---------------------------------------------------------------------------
// Case
// ---------------------------------------------------------------------------

#[derive(Debug, Clone, Serialize, Deserialize)]
pub struct Node {
    /// Raw parent selectors (1..=6), mapped monotonically onto the commits that
    /// are visible to the transaction writing this node. `u16::MAX` = the
    /// immediately preceding commit (long chains).
    pub parents: Vec<u16>,
    /// Raw selector for the change id (shared pool or unique).
    pub change: u16,
    /// Committer timestamp slot (ties and inversions relative to the parents are
    /// legal; `index_commits` must still add parents first).
    pub ts: u8,
}

#[derive(Debug, Clone, Serialize, Deserialize)]
pub struct Tx {
    pub nodes: Vec<Node>,
    /// true: commits are written with `write_hidden()` and then added in one
    /// `add_heads()` call (reverse order); false: `CommitBuilder::write()` each.
    pub batch: bool,
    /// Sequential transactions only: hide one currently visible head (remove it
    /// from the view, re-add its parents). The commit stays indexed.
    pub hide: Option<u16>,
}

#[derive(Debug, Clone, Copy, Serialize, Deserialize, PartialEq, Eq)]
pub enum Reload {
    /// Continue with the repo returned by `Transaction::commit`.
    Keep,
    /// `repo.reload_at_head()` (same loader, index re-read from the index store).
    AtHead,
    /// A fresh `RepoLoader::init_from_file_system` + `load_at_head`.
    Fresh,
}

#[derive(Debug, Clone, Serialize, Deserialize)]
pub struct Group {
    /// One transaction = sequential step; 2..=3 = concurrent transactions from
    /// the same base, merged afterwards.
    pub txs: Vec<Tx>,
    pub reload: Reload,
}

#[derive(Debug, Clone, Serialize, Deserialize)]
pub struct Case {
    pub groups: Vec<Group>,
    /// Raw numbers driving the query selection at every checkpoint (cycled).
    pub queries: Vec<u16>,
}

fn node_strategy() -> impl Strategy<Value = Node> {
    // A case costs a repo and several transactions on disk, so shrinking is kept
    // structural (dropping groups / transactions / nodes); the raw selectors are
    // not shrunk individually.
    (
        prop::bool::weighted(0.4),
        prop_oneof![
            58 => prop::collection::vec(any::<u16>(), 1),
            26 => prop::collection::vec(any::<u16>(), 2),
            16 => prop::collection::vec(any::<u16>(), 3..=6),
        ],
        any::<u16>(),
        0u8..8,
    )
        .prop_map(|(linear, mut parents, change, ts)| {
            if linear {
                parents[0] = u16::MAX;
            }
            Node { parents, change, ts }
        })
        .no_shrink()
}

fn tx_strategy(size: impl Strategy<Value = usize>, allow_hide: bool) -> impl Strategy<Value = Tx> {
    (
        size.prop_flat_map(|n| prop::collection::vec(node_strategy(), n)),
        prop::bool::weighted(0.3),
        if allow_hide {
            prop::option::weighted(0.2, any::<u16>().no_shrink()).boxed()
        } else {
            Just(None).boxed()
        },
    )
        .prop_map(|(nodes, batch, hide)| Tx { nodes, batch, hide })
}

fn reload_strategy() -> impl Strategy<Value = Reload> {
    prop_oneof![
        60 => Just(Reload::Keep),
        15 => Just(Reload::AtHead),
        25 => Just(Reload::Fresh),
    ]
}

/// `scale` multiplies the transaction sizes (1 = quick: ≤ ~120 commits).
fn case_strategy(scale: usize) -> impl Strategy<Value = Case> {
    // First transaction: big or small; later ones: mostly much smaller than what
    // is already there (segments stack: a new file is kept when it has less than
    // half the commits of its parent file), sometimes big (squash).
    let first = prop_oneof![
        50 => (12 * scale)..=(60 * scale),
        30 => 1usize..=6,
        20 => 6usize..=(12 * scale),
    ];
    let later = move || {
        prop_oneof![
            30 => 1usize..=1,
            25 => 2usize..=3,
            20 => 4usize..=(8 * scale),
            15 => (8 * scale)..=(16 * scale),
            10 => (16 * scale)..=(30 * scale),
        ]
    };
    let seq_group = move |size: BoxedStrategy<usize>| {
        (tx_strategy(size, true), reload_strategy())
            .prop_map(|(tx, reload)| Group { txs: vec![tx], reload })
    };
    let conc_group = move || {
        (
            prop::collection::vec(
                tx_strategy(prop_oneof![60 => 1usize..=3, 40 => 4usize..=(10 * scale)], false),
                2..=3,
            ),
            prop_oneof![60 => Just(Reload::AtHead), 40 => Just(Reload::Fresh)],
        )
            .prop_map(|(txs, reload)| Group { txs, reload })
    };
    (
        seq_group(first.boxed()),
        prop::collection::vec(
            prop_oneof![
                75 => seq_group(later().boxed()).boxed(),
                25 => conc_group().boxed(),
            ],
            0..=9,
        ),
        prop::collection::vec(any::<u16>(), 16..=64).no_shrink(),
        prop::bool::weighted(0.3),
    )
        .prop_map(|(g0, mut rest, queries, descending)| {
            if descending {
                // Shrinking transaction sizes give the deepest stacks of segment files.
                rest.sort_by_key(|g| {
                    std::cmp::Reverse(g.txs.iter().map(|tx| tx.nodes.len()).sum::<usize>())
                });
            }
            let mut groups = vec![g0];
            groups.append(&mut rest);
            Case { groups, queries }
        })
}

// ---------------------------------------------------------------------------
// Plan: the model derived from the case
// ---------------------------------------------------------------------------

struct PlanTx {
    range: Range<usize>,
    batch: bool,
    hide: Option<u16>,
}

struct PlanGroup {
    /// Nodes `0..base` are known to every transaction of the group at its start.
    base: usize,
    txs: Vec<PlanTx>,
    reload: Reload,
}

struct Plan {
    dag: Dag,
    children: Vec<Vec<usize>>,
    /// Change number per node (0 = the root change id).
    change: Vec<u64>,
    ts: Vec<i64>,
    groups: Vec<PlanGroup>,
}

const MAX_PER_CHANGE: u32 = 5;

fn make_plan(case: &Case) -> Plan {
    let total: usize = case
        .groups
        .iter()
        .flat_map(|g| &g.txs)
        .map(|tx| tx.nodes.len())
        .sum();
    let pool = (total / 5).max(1);
    let mut pool_count: BTreeMap<usize, u32> = BTreeMap::new();
    let mut parents: Vec<Vec<usize>> = vec![vec![]];
    let mut change: Vec<u64> = vec![0];
    let mut ts: Vec<i64> = vec![0];
    let mut groups = vec![];
    for group in &case.groups {
        let base = parents.len();
        let mut txs = vec![];
        for tx in &group.txs {
            let start = parents.len();
            for node in &tx.nodes {
                let i = parents.len();
                // Commits visible to this transaction: 0..base and start..i.
                let visible = base + (i - start);
                let mut ps: Vec<usize> = vec![];
                for raw in &node.parents {
                    let j = pick(*raw, visible);
                    let p = if j < base { j } else { start + (j - base) };
                    if !ps.contains(&p) {
                        ps.push(p);
                    }
                }
                if ps.len() > 1 {
                    // The root is only ever a sole parent (as in model::dag).
                    ps.retain(|p| *p != 0);
                }
                parents.push(ps);
                let q = pick(node.change, 2 * pool);
                let c = if q < pool && *pool_count.get(&q).unwrap_or(&0) < MAX_PER_CHANGE {
                    *pool_count.entry(q).or_default() += 1;
                    1 + q as u64
                } else {
                    1_000_000 + i as u64
                };
                change.push(c);
                ts.push(BASE_TS + 1000 * i64::from(node.ts));
            }
            txs.push(PlanTx {
                range: start..parents.len(),
                batch: tx.batch,
                hide: if group.txs.len() == 1 { tx.hide } else { None },
            });
        }
        groups.push(PlanGroup {
            base,
            txs,
            reload: group.reload,
        });
    }
    let dag = Dag { parents };
    let children = dag.children();
    Plan {
        dag,
        children,
        change,
        ts,
        groups,
    }
}

impl Plan {
    /// Maximal elements of an ancestor-closed set: members without a child in
    /// the set (if `c` had a proper descendant in the set, the first step of the
    /// path towards it would be in the set too).
    fn heads_of_closed(&self, closed: &BTreeSet<usize>) -> BTreeSet<usize> {
        closed
            .iter()
            .copied()
            .filter(|c| !self.children[*c].iter().any(|ch| closed.contains(ch)))
            .collect()
    }

    /// Members of `set` that are not proper ancestors of another member (one
    /// traversal; `Dag::heads` is quadratic).
    fn heads(&self, set: &BTreeSet<usize>) -> BTreeSet<usize> {
        let proper = self.dag.ancestors(
            set.iter()
                .flat_map(|s| self.dag.parents[*s].iter().copied()),
        );
        set.difference(&proper).copied().collect()
    }

    fn common_ancestors(&self, a: &BTreeSet<usize>, b: &BTreeSet<usize>) -> BTreeSet<usize> {
        let aa = self.dag.ancestors(a.iter().copied());
        let bb = self.dag.ancestors(b.iter().copied());
        let common: BTreeSet<usize> = aa.intersection(&bb).copied().collect();
        self.heads_of_closed(&common)
    }

    fn generations(&self) -> Vec<u32> {
        let mut generation = vec![0u32; self.dag.len()];
        for j in 1..self.dag.len() {
            generation[j] = self.dag.parents[j]
                .iter()
                .map(|p| generation[*p] + 1)
                .max()
                .unwrap_or(0);
        }
        generation
    }
}

// ---------------------------------------------------------------------------
// Queries
// ---------------------------------------------------------------------------

#[derive(Clone, Copy)]
enum IndexRef<'a> {
    Readonly(&'a dyn ReadonlyIndex),
    Mutable(&'a dyn MutableIndex),
}

impl<'a> IndexRef<'a> {
    fn as_index(self) -> &'a dyn Index {
        match self {
            Self::Readonly(index) => index.as_index(),
            Self::Mutable(index) => index.as_index(),
        }
    }

    fn change_id_index(
        self,
        heads: &mut dyn Iterator<Item = &CommitId>,
    ) -> Box<dyn ChangeIdIndex + 'a> {
        match self {
            Self::Readonly(index) => index.change_id_index(heads),
            Self::Mutable(index) => index.change_id_index(heads),
        }
    }

    fn default_readonly(self) -> Option<&'a DefaultReadonlyIndex> {
        match self {
            Self::Readonly(index) => index.downcast_ref::<DefaultReadonlyIndex>(),
            Self::Mutable(_) => None,
        }
    }
}

struct Raw<'a> {
    raw: &'a [u16],
    pos: usize,
}

impl Raw<'_> {
    fn next(&mut self) -> u16 {
        if self.raw.is_empty() {
            return 0;
        }
        let v = self.raw[self.pos];
        self.pos = (self.pos + 1) % self.raw.len();
        v
    }

    fn pick(&mut self, len: usize) -> usize {
        pick(self.next(), len)
    }
}

#[derive(Default)]
struct Tally {
    queries: u64,
    ancestor_true: u64,
    ancestor_false: u64,
    multi_common_ancestors: u64,
    heads_dropped: u64,
    change_multi_visible: u64,
    change_hidden: u64,
}

struct World<'a> {
    plan: &'a Plan,
    generation: &'a [u32],
    change_ids: &'a [ChangeId],
    /// Commit id per node once written.
    ids: &'a [Option<CommitId>],
}

impl World<'_> {
    fn id(&self, node: usize) -> &CommitId {
        self.ids[node].as_ref().expect("node written")
    }

    fn node_of(&self, id: &CommitId) -> Option<usize> {
        self.ids.iter().position(|x| x.as_ref() == Some(id))
    }

    fn nodes_of(&self, what: &str, ids: &[CommitId]) -> Result<Vec<usize>, Violation> {
        ids.iter()
            .map(|id| {
                self.node_of(id)
                    .ok_or_else(|| Violation::new(format!("{what}: unknown commit id {id:?} returned")))
            })
            .collect()
    }
}

fn err<T>(what: &str, r: Result<T, jj_lib::index::IndexError>) -> Result<T, Violation> {
    r.map_err(|e| Violation::new(format!("{what}: index error {e}")))
}

/// Compares every query family on one index against the model. `known` is the
/// (ancestor-closed) set of nodes that must be indexed, `absent` are commit ids
/// that exist in the store but must not be in this index.
fn check_index(
    at: &str,
    w: &World<'_>,
    index_ref: IndexRef<'_>,
    known: &BTreeSet<usize>,
    absent: &[CommitId],
    raw: &mut Raw<'_>,
    tally: &mut Tally,
) -> Result<(), Violation> {
    let plan = w.plan;
    let dag = &plan.dag;
    let index = index_ref.as_index();
    let kv: Vec<usize> = known.iter().copied().collect();
    let n = kv.len();

    // has_id
    for &i in &kv {
        ensure!(
            err("has_id", index.has_id(w.id(i)).block_on())?,
            "{at}: has_id(node {i}) is false for an indexed commit"
        );
        let res = err(
            "resolve_commit_id_prefix",
            index
                .resolve_commit_id_prefix(&HexPrefix::from_id(w.id(i)))
                .block_on(),
        )?;
        ensure_eq!(
            res,
            PrefixResolution::SingleMatch(w.id(i).clone()),
            "{at}: full commit id of node {i} does not resolve to itself"
        );
    }
    for id in absent {
        ensure!(
            !err("has_id", index.has_id(id).block_on())?,
            "{at}: has_id({id:?}) is true for a commit that was never added to this index"
        );
    }
    let bogus = CommitId::from_bytes(&[0xfe; COMMIT_ID_LENGTH]);
    ensure!(
        !err("has_id", index.has_id(&bogus).block_on())?,
        "{at}: has_id of a non-existent id"
    );
    tally.queries += (2 * n + absent.len() + 1) as u64;

    // all heads
    let mut all_heads: Vec<usize> = w.nodes_of(
        "all_heads_for_gc",
        &err("all_heads_for_gc", index.all_heads_for_gc())?.collect::<Vec<_>>(),
    )?;
    all_heads.sort_unstable();
    let expect: Vec<usize> = plan.heads_of_closed(known).into_iter().collect();
    ensure_eq!(all_heads, expect, "{at}: all_heads_for_gc");
    tally.queries += 1;

    // generation numbers and stats (readonly index only: not public on the mutable one)
    if let Some(ro) = index_ref.default_readonly() {
        for &i in &kv {
            ensure_eq!(
                ro.generation_number(w.id(i)),
                Some(w.generation[i]),
                "{at}: generation_number(node {i})"
            );
        }
        ensure_eq!(ro.generation_number(&bogus), None, "{at}: generation of unknown id");
        let stats = ro.stats();
        ensure_eq!(stats.num_commits as usize, n, "{at}: stats.num_commits");
        ensure_eq!(ro.num_commits() as usize, n, "{at}: num_commits");
        ensure_eq!(
            stats.max_generation_number,
            kv.iter().map(|i| w.generation[*i]).max().unwrap_or(0),
            "{at}: stats.max_generation_number"
        );
        ensure_eq!(
            stats.num_merges as usize,
            kv.iter().filter(|i| dag.parents[**i].len() > 1).count(),
            "{at}: stats.num_merges"
        );
        ensure_eq!(stats.num_heads as usize, expect.len(), "{at}: stats.num_heads");
        ensure_eq!(
            stats.num_changes as usize,
            kv.iter().map(|i| plan.change[*i]).collect::<BTreeSet<_>>().len(),
            "{at}: stats.num_changes"
        );
        ensure_eq!(
            stats.commit_levels.iter().map(|l| l.num_commits as usize).sum::<usize>(),
            n,
            "{at}: sum of segment sizes"
        );
        tally.queries += n as u64 + 2;
    }

    // is_ancestor
    let mut pairs: Vec<(usize, usize)> = vec![];
    if n <= 10 {
        for &a in &kv {
            for &b in &kv {
                pairs.push((a, b));
            }
        }
    }
    for _ in 0..24 {
        let b = kv[raw.pick(n)];
        let a = match raw.pick(4) {
            0 | 1 => {
                // an ancestor of b (true answers are rare among random pairs)
                let anc: Vec<usize> = dag.ancestors([b]).into_iter().collect();
                anc[raw.pick(anc.len())]
            }
            _ => kv[raw.pick(n)],
        };
        pairs.push((a, b));
        pairs.push((b, a));
    }
    for (a, b) in pairs {
        let got = err("is_ancestor", index.is_ancestor(w.id(a), w.id(b)).block_on())?;
        let expect = dag.is_ancestor(a, b);
        ensure_eq!(got, expect, "{at}: is_ancestor(node {a}, node {b})");
        if expect {
            tally.ancestor_true += 1;
        } else {
            tally.ancestor_false += 1;
        }
        tally.queries += 1;
    }

    // common_ancestors
    for _ in 0..8 {
        let mut sets: Vec<BTreeSet<usize>> = vec![];
        for _ in 0..2 {
            let size = 1 + raw.pick(3);
            sets.push((0..size).map(|_| kv[raw.pick(n)]).collect());
        }
        let to_ids = |s: &BTreeSet<usize>| s.iter().map(|i| w.id(*i).clone()).collect::<Vec<_>>();
        let got = err(
            "common_ancestors",
            index.common_ancestors(&to_ids(&sets[0]), &to_ids(&sets[1])).block_on(),
        )?;
        let mut got = w.nodes_of("common_ancestors", &got)?;
        got.sort_unstable();
        let expect: Vec<usize> = plan.common_ancestors(&sets[0], &sets[1]).into_iter().collect();
        if dag.len() <= 40 {
            // Cross-check the fast oracle with the shared BFS model.
            let slow: Vec<usize> = dag.common_ancestors(&sets[0], &sets[1]).into_iter().collect();
            assert_eq!(slow, expect, "oracle self-check");
        }
        ensure_eq!(
            got,
            expect,
            "{at}: common_ancestors({:?}, {:?})",
            sets[0],
            sets[1]
        );
        if expect.len() > 1 {
            tally.multi_common_ancestors += 1;
        }
        tally.queries += 1;
    }

    // heads of candidate lists (duplicates allowed in the input)
    for _ in 0..8 {
        let size = 1 + raw.pick(6);
        let mut cands: Vec<usize> = vec![];
        for _ in 0..size {
            let c = if !cands.is_empty() && raw.pick(2) == 0 {
                // an ancestor of (or the same as) an earlier candidate
                let of = cands[raw.pick(cands.len())];
                let anc: Vec<usize> = dag.ancestors([of]).into_iter().collect();
                anc[raw.pick(anc.len())]
            } else {
                kv[raw.pick(n)]
            };
            cands.push(c);
        }
        let cand_ids: Vec<CommitId> = cands.iter().map(|i| w.id(*i).clone()).collect();
        let got = err("heads", index.heads(&mut cand_ids.iter()).block_on())?;
        let mut got = w.nodes_of("heads", &got)?;
        got.sort_unstable();
        let cand_set: BTreeSet<usize> = cands.iter().copied().collect();
        let expect: Vec<usize> = dag.heads(&cand_set).into_iter().collect();
        assert_eq!(
            expect,
            plan.heads(&cand_set).into_iter().collect::<Vec<_>>(),
            "oracle self-check"
        );
        ensure_eq!(got, expect, "{at}: heads({cands:?})");
        if expect.len() < cand_set.len() {
            tally.heads_dropped += 1;
        }
        tally.queries += 1;
    }

    // change id lookups relative to generated head sets
    for _ in 0..3 {
        let size = 1 + raw.pick(3);
        let heads: BTreeSet<usize> = (0..size).map(|_| kv[raw.pick(n)]).collect();
        let head_ids: Vec<CommitId> = heads.iter().map(|i| w.id(*i).clone()).collect();
        let visible = dag.ancestors(heads.iter().copied());
        let cidx = index_ref.change_id_index(&mut head_ids.iter());
        let mut probes: Vec<usize> = (0..4).map(|_| kv[raw.pick(n)]).collect();
        probes.push(0);
        for c in probes {
            check_change_lookup(at, w, cidx.as_ref(), known, &visible, c, tally)?;
        }
        let none = err(
            "resolve_prefix",
            cidx.resolve_prefix(&HexPrefix::from_id(&change_id(999_999_999))).block_on(),
        )?;
        ensure_eq!(none, PrefixResolution::NoMatch, "{at}: lookup of an unknown change id");
    }
    Ok(())
}

/// `resolve_prefix(full change id of node c)` must list every commit of the
/// change that is an ancestor of the heads as Visible, nothing else as Visible,
/// and may list other indexed commits of the change as Hidden.
fn check_change_lookup(
    at: &str,
    w: &World<'_>,
    cidx: &dyn ChangeIdIndex,
    known: &BTreeSet<usize>,
    visible: &BTreeSet<usize>,
    c: usize,
    tally: &mut Tally,
) -> Result<(), Violation> {
    let plan = w.plan;
    let res = err(
        "resolve_prefix",
        cidx.resolve_prefix(&HexPrefix::from_id(&w.change_ids[c])).block_on(),
    )?;
    let PrefixResolution::SingleMatch(targets) = res else {
        return Err(Violation::new(format!(
            "{at}: change id of indexed node {c} resolves to {res:?}"
        )));
    };
    let members: BTreeSet<usize> = known
        .iter()
        .copied()
        .filter(|i| plan.change[*i] == plan.change[c])
        .collect();
    let mut got_visible = vec![];
    let mut got_hidden = vec![];
    for (id, state) in &targets.targets {
        let node = w
            .node_of(id)
            .ok_or_else(|| Violation::new(format!("{at}: change lookup returned unknown id {id:?}")))?;
        match state {
            ResolvedChangeState::Visible => got_visible.push(node),
            ResolvedChangeState::Hidden => got_hidden.push(node),
        }
    }
    got_visible.sort_unstable();
    got_hidden.sort_unstable();
    let expect_visible: Vec<usize> = members.intersection(visible).copied().collect();
    ensure_eq!(
        got_visible,
        expect_visible,
        "{at}: visible commits of the change of node {c} (members {members:?})"
    );
    let mut dedup = got_hidden.clone();
    dedup.dedup();
    ensure_eq!(dedup.len(), got_hidden.len(), "{at}: duplicate hidden targets for change of node {c}");
    for h in &got_hidden {
        ensure!(
            members.contains(h) && !visible.contains(h),
            "{at}: commit {h} reported Hidden for the change of node {c}, members {members:?}"
        );
    }
    if expect_visible.len() > 1 {
        tally.change_multi_visible += 1;
    }
    if !got_hidden.is_empty() {
        tally.change_hidden += 1;
    }
    tally.queries += 1;
    Ok(())
}

// ---------------------------------------------------------------------------
// Driver
// ---------------------------------------------------------------------------

fn settings() -> UserSettings {
    let mut config = testutils::base_user_config();
    let mut layer = ConfigLayer::empty(ConfigSource::User);
    layer
        .set_value("debug.operation-timestamp", "2001-02-03T04:05:06+07:00")
        .unwrap();
    config.add_layer(layer);
    UserSettings::from_config(config).unwrap()
}

fn levels(repo: &ReadonlyRepo) -> Vec<u32> {
    repo.readonly_index()
        .downcast_ref::<DefaultReadonlyIndex>()
        .expect("default index")
        .stats()
        .commit_levels
        .iter()
        .map(|l| l.num_commits)
        .collect()
}

/// Writes the nodes of one transaction into `mut_repo`.
fn write_tx(
    mut_repo: &mut MutableRepo,
    plan: &Plan,
    tx: &PlanTx,
    commits: &mut Vec<Commit>,
) -> Result<(), Violation> {
    let empty_tree = mut_repo.store().empty_merged_tree();
    if !tx.batch {
        let tree_of = |_: usize| empty_tree.clone();
        let change_of = |i: usize| plan.change[i];
        let ts_of = |i: usize| plan.ts[i];
        let opts = BuildOpts {
            tree_of: Some(&tree_of),
            change_of: Some(&change_of),
            desc_of: None,
            ts_of: Some(&ts_of),
        };
        write_nodes(mut_repo, &plan.dag, tx.range.clone(), commits, &opts);
    } else {
        for i in tx.range.clone() {
            assert_eq!(commits.len(), i);
            let parent_ids: Vec<CommitId> = plan.dag.parents[i]
                .iter()
                .map(|p| commits[*p].id().clone())
                .collect();
            let sig = signature(plan.ts[i]);
            let commit = mut_repo
                .new_commit(parent_ids, empty_tree.clone())
                .set_change_id(change_id(plan.change[i]))
                .set_description(format!("c{i}"))
                .set_author(sig.clone())
                .set_committer(sig)
                .detach()
                .write_hidden()
                .block_on()
                .map_err(|e| Violation::new(format!("write_hidden failed: {e}")))?;
            commits.push(commit);
        }
        let batch: Vec<Commit> = commits[tx.range.clone()].iter().rev().cloned().collect();
        mut_repo
            .add_heads(&batch)
            .block_on()
            .map_err(|e| Violation::new(format!("add_heads failed: {e}")))?;
    }
    Ok(())
}

fn view_head_nodes(w: &World<'_>, repo: &ReadonlyRepo) -> Result<Vec<usize>, Violation> {
    let ids: Vec<CommitId> = repo.view().heads().iter().cloned().collect();
    let mut nodes = w.nodes_of("view heads", &ids)?;
    nodes.sort_unstable();
    Ok(nodes)
}

fn check(case: &Case) -> CheckResult {
    let plan = make_plan(case);
    let generation = plan.generations();
    let settings = settings();
    // In-memory backend without thread hand-offs (hashed 20-byte commit ids); op
    // store, op heads and the default index store are the real on-disk ones.
    let test_repo = PrefixRepo::init(&settings);
    let mut repo: Arc<ReadonlyRepo> = test_repo.repo.clone();
    let root_change = repo.store().root_change_id().clone();
    let change_ids: Vec<ChangeId> = plan
        .change
        .iter()
        .enumerate()
        .map(|(i, c)| if i == 0 { root_change.clone() } else { change_id(*c) })
        .collect();
    let mut commits: Vec<Commit> = vec![repo.store().root_commit()];
    let mut ids: Vec<Option<CommitId>> = vec![None; plan.dag.len()];
    ids[0] = Some(commits[0].id().clone());
    let mut raw = Raw {
        raw: &case.queries,
        pos: 0,
    };
    let mut tally = Tally::default();
    // Model of the view heads.
    let mut view_heads: BTreeSet<usize> = BTreeSet::from([0]);

    let mut max_levels = levels(&repo).len();
    let mut squashes = 0u32;
    let mut op_merges = 0u32;
    let mut fresh_reloads = 0u32;
    let mut hides = 0u32;
    let mut batches = 0u32;

    macro_rules! world {
        () => {
            World {
                plan: &plan,
                generation: &generation,
                change_ids: &change_ids,
                ids: &ids,
            }
        };
    }

    for (gi, group) in plan.groups.iter().enumerate() {
        let levels_before = levels(&repo);
        let concurrent = group.txs.len() > 1;
        // All transactions of the group start from the same base repo.
        let mut open = vec![];
        for tx in &group.txs {
            open.push((tx, repo.start_transaction()));
        }
        let mut committed: Vec<Arc<ReadonlyRepo>> = vec![];
        for (ti, (ptx, tx)) in open.iter_mut().enumerate() {
            write_tx(tx.repo_mut(), &plan, ptx, &mut commits)?;
            for i in ptx.range.clone() {
                ids[i] = Some(commits[i].id().clone());
            }
            if ptx.batch {
                batches += 1;
            }
            let mut tx_heads =
                plan.heads(&view_heads.iter().copied().chain(ptx.range.clone()).collect());
            if let Some(sel) = ptx.hide {
                let cands: Vec<usize> = tx_heads.iter().copied().filter(|h| *h != 0).collect();
                if !cands.is_empty() {
                    let h = cands[pick(sel, cands.len())];
                    tx.repo_mut().remove_head(commits[h].id());
                    for p in &plan.dag.parents[h] {
                        tx.repo_mut()
                            .add_head(&commits[*p])
                            .block_on()
                            .map_err(|e| Violation::new(format!("add_head failed: {e}")))?;
                    }
                    tx_heads.remove(&h);
                    tx_heads.extend(plan.dag.parents[h].iter().copied());
                    tx_heads = plan.heads(&tx_heads);
                    hides += 1;
                }
            }
            // Mutable index of the open transaction.
            let known: BTreeSet<usize> = (0..group.base).chain(ptx.range.clone()).collect();
            // Commits of sibling transactions written so far are not in this index.
            let absent: Vec<CommitId> = (group.base..commits.len())
                .filter(|i| !known.contains(i))
                .map(|i| commits[i].id().clone())
                .collect();
            check_index(
                &format!("group {gi} tx {ti} (mutable index)"),
                &world!(),
                IndexRef::Mutable(tx.repo().mutable_index()),
                &known,
                &absent,
                &mut raw,
                &mut tally,
            )?;
            if !concurrent {
                view_heads = tx_heads;
            }
        }
        for (ti, (ptx, tx)) in open.into_iter().enumerate() {
            let new_repo = tx
                .commit(format!("group {gi} tx {ti}"))
                .block_on()
                .map_err(|e| Violation::new(format!("commit failed: {e}")))?;
            let known: BTreeSet<usize> = (0..group.base).chain(ptx.range.clone()).collect();
            let absent: Vec<CommitId> = (group.base..commits.len())
                .filter(|i| !known.contains(i))
                .map(|i| commits[i].id().clone())
                .collect();
            check_index(
                &format!("group {gi} tx {ti} (after commit)"),
                &world!(),
                IndexRef::Readonly(new_repo.readonly_index()),
                &known,
                &absent,
                &mut raw,
                &mut tally,
            )?;
            if !concurrent {
                let lv = levels(&new_repo);
                // The very first transaction always merges with the one-commit root
                // segment; only count squashes of a real stack of files.
                if levels_before.len() >= 2 && lv.len() <= levels_before.len() {
                    squashes += 1;
                }
            }
            committed.push(new_repo);
        }
        let end = commits.len();
        if concurrent {
            view_heads = plan.heads(&view_heads.iter().copied().chain(group.base..end).collect());
            op_merges += 1;
        }
        repo = match group.reload {
            Reload::Keep if !concurrent => committed.pop().unwrap(),
            Reload::Keep | Reload::AtHead => committed[0]
                .reload_at_head()
                .block_on()
                .map_err(|e| Violation::new(format!("reload_at_head failed: {e}")))?,
            Reload::Fresh => {
                fresh_reloads += 1;
                test_repo.load_at_head(&settings)
            }
        };
        drop(committed);
        let known: BTreeSet<usize> = (0..end).collect();
        let w = world!();
        if concurrent || group.reload != Reload::Keep {
            check_index(
                &format!("group {gi} (after {:?}, merge={concurrent})", group.reload),
                &w,
                IndexRef::Readonly(repo.readonly_index()),
                &known,
                &[],
                &mut raw,
                &mut tally,
            )?;
        }
        max_levels = max_levels.max(levels(&repo).len());
        // The view heads are the index's `heads()` of what the transactions put there.
        let got_heads = view_head_nodes(&w, &repo)?;
        let expect_heads: Vec<usize> = view_heads.iter().copied().collect();
        ensure_eq!(got_heads, expect_heads, "group {gi}: visible heads of the view");
        // Repo-level change id resolution uses the real view heads.
        let visible = plan.dag.ancestors(view_heads.iter().copied());
        for _ in 0..4 {
            let c = raw.pick(end);
            let res = repo
                .resolve_change_id(&change_ids[c])
                .block_on()
                .map_err(|e| Violation::new(format!("resolve_change_id: {e}")))?;
            let got: Vec<usize> = match res.and_then(|t| t.into_visible()) {
                Some(ids) => {
                    let mut v = w.nodes_of("resolve_change_id", &ids)?;
                    v.sort_unstable();
                    v
                }
                None => vec![],
            };
            let expect: Vec<usize> = (0..end)
                .filter(|i| plan.change[*i] == plan.change[c] && visible.contains(i))
                .collect();
            ensure_eq!(
                got,
                expect,
                "group {gi}: repo.resolve_change_id(change of node {c}) visible commits"
            );
            tally.queries += 1;
        }
    }

    let n = plan.dag.len();
    let octopus = plan.dag.parents.iter().filter(|p| p.len() >= 3).count();
    let mut per_change: BTreeMap<u64, u32> = BTreeMap::new();
    for c in &plan.change {
        *per_change.entry(*c).or_default() += 1;
    }
    let shared_changes = per_change.values().filter(|c| **c >= 2).count();
    let nontrivial = max_levels >= 3 || squashes > 0 || op_merges > 0;
    Ok(Outcome::new(nontrivial)
        .class_if(max_levels >= 3, "segments>=3")
        .class_if(max_levels >= 5, "segments>=5")
        .class_if(squashes > 0, "squash")
        .class_if(op_merges > 0, "concurrent_op_merge")
        .class_if(fresh_reloads > 0, "fresh_loader_reload")
        .class_if(hides > 0, "hidden_commit")
        .class_if(batches > 0, "batch_add_heads")
        .class_if(octopus > 0, "octopus>=3_parents")
        .class_if(shared_changes > 0, "shared_change_id")
        .class_if(n > 60, "commits>60")
        .class_if(tally.multi_common_ancestors > 0, "multiple_common_ancestors")
        .class_if(tally.change_multi_visible > 0, "divergent_change_lookup")
        .class_if(tally.change_hidden > 0, "hidden_change_target")
        .class_if(tally.ancestor_true > 0 && tally.ancestor_false > 0, "ancestor_both_answers")
        .class_if(tally.queries >= 400, "queries>=400"))
}

pub fn run(report: &mut Report) {
    report.set_rule(
        "history = 1..=10 groups; a group is one transaction (sequential) or 2..=3 transactions \
         started from the same base and merged by reload (concurrent operations); every \
         transaction adds 1..60 commits of a model DAG (1..=6 parents drawn from the commits \
         visible to it, 40% chain bias, change ids shared by up to 5 commits, committer \
         timestamps with ties/inversions), written one by one or via write_hidden+add_heads, \
         optionally hides a head; after a group: keep / reload_at_head / fresh loader. At every \
         checkpoint (mutable index, after commit, after reload/merge) all has_id, generation \
         numbers, all_heads, stats and sampled is_ancestor / common_ancestors / heads / change \
         id lookups are compared with BFS on the model. Non-trivial = the index reached >= 3 \
         segment files, or a squash happened (segment count did not grow on commit), or an \
         index merge of concurrent operations happened.",
    );
    report.assume(
        "model::prefix_backend (in-memory copy of the test backend, hashed 20-byte commit ids) \
         with the real on-disk op store / op heads store / default index store behaves like a \
         real repo as far as the index is concerned",
    );
    report.assume(
        "ResolvedChangeTargets may omit hidden commits (trait contract), so only the Visible \
         targets are required to be exact; Hidden ones must be members of the change",
    );
    let tier = report.tier;
    let scale = tier.pick_usize(1, 4);
    report.prop(
        "history",
        tier.pick(200, 4000),
        move || case_strategy(scale),
        check,
    );
}
