//! C13 Concurrent operations are merged without losing work.
//!
//! A random base repo, 2–3 transactions started from the same operation, each a
//! short random op list; the resulting operations are reconciled with
//! `RepoLoader::merge_operations` in every order of the heads and with
//! `load_at_head`. A second round builds two more transactions on top of the two
//! differently ordered merges, which gives criss-cross operation ancestry.
//!
//! The oracle is evaluated per order (orders need not agree with each other). It
//! reads the committed view of the base and of every side and predicts the
//! merged view: commits by visibility (BFS over parent pointers read from the
//! commit objects — never the index), bookmarks and tags with the reference
//! ref-merge model of C12, working copies with the documented rule of
//! `merge_wc_commit`.

use std::collections::BTreeMap;
use std::collections::BTreeSet;
use std::sync::Arc;

use jj_lib::backend::ChangeId;
use jj_lib::backend::CommitId;
use jj_lib::config::ConfigLayer;
use jj_lib::config::ConfigSource;
use jj_lib::op_store::RefTarget;
use jj_lib::operation::Operation;
use jj_lib::ref_name::RefName;
use jj_lib::ref_name::WorkspaceNameBuf;
use jj_lib::repo::MutableRepo;
use jj_lib::repo::ReadonlyRepo;
use jj_lib::repo::Repo as _;
use jj_lib::settings::UserSettings;
use jj_lib::store::Store;
use jj_lib::view::View;
use pollster::FutureExt as _;
use proptest::prelude::*;
use serde::Deserialize;
use serde::Serialize;
use testutils::TestRepo;

use crate::engine::runner::CheckResult;
use crate::engine::runner::Outcome;
use crate::engine::runner::Report;
use crate::engine::runner::Violation;
use crate::engine::runner::pick;
use crate::ensure;
use crate::model::dag::BASE_TS;
use crate::model::dag::BuildOpts;
use crate::model::dag::Dag;
use crate::model::dag::DagSpec;
use crate::model::dag::change_id;
use crate::model::dag::dag_spec;
use crate::model::dag::signature;
use crate::model::dag::write_nodes;
use crate::model::refmerge::AncestryMatrix;
use crate::model::refmerge::Target;
use crate::model::refmerge::merge_many;

const BOOKMARKS: [&str; 3] = ["b0", "b1", "b2"];
const TAGS: [&str; 2] = ["t0", "t1"];
const WORKSPACES: [&str; 2] = ["ws0", "ws1"];

#[derive(Debug, Clone, Serialize, Deserialize)]
pub enum Op {
    /// New commit with a fresh change id on 1–2 visible parents (root allowed
    /// as sole parent).
    NewCommit { parents: Vec<u16> },
    /// `rewrite_commit(c).set_description(..)` + `rebase_descendants`.
    Rewrite { commit: u16 },
    /// `record_abandoned_commit(c)` + `rebase_descendants`.
    Abandon { commit: u16 },
    SetBookmark { name: u8, commit: u16 },
    DeleteBookmark { name: u8 },
    SetTag { name: u8, commit: u16 },
    DeleteTag { name: u8 },
    /// `edit(ws, c)`.
    Edit { ws: u8, commit: u16 },
    /// `check_out(ws, c)` (new empty working-copy commit on top of `c`).
    CheckOut { ws: u8, commit: u16 },
    RemoveWorkspace { ws: u8 },
}

#[derive(Debug, Clone, Serialize, Deserialize)]
pub enum RefInit {
    Absent,
    Normal(u16),
    /// add, remove, add
    Conflict([u16; 3]),
}

#[derive(Debug, Clone, Serialize, Deserialize)]
pub struct Case {
    pub dag: DagSpec,
    /// Initial bookmarks b0..b2.
    pub bookmarks: Vec<RefInit>,
    /// Initial tags t0..t1.
    pub tags: Vec<RefInit>,
    /// Initial working copies ws0..ws1.
    pub wcs: Vec<Option<u16>>,
    /// 2–3 concurrent transactions from the base.
    pub sides: Vec<Vec<Op>>,
    /// Second round (used when there are exactly two sides): one transaction on
    /// top of merge(side0, side1), one on top of merge(side1, side0).
    pub round2: Option<(Vec<Op>, Vec<Op>)>,
}

/// `refs_heavy`: mostly bookmark/tag/working-copy changes and new commits (so
/// that both sides often change the same name while nothing is rewritten, the
/// domain where the ref-merge model predicts the result exactly); otherwise a
/// mix with frequent rewrites and abandons.
fn op_strategy(refs_heavy: bool) -> impl Strategy<Value = Op> {
    let w = |mixed: u32, refs: u32| if refs_heavy { refs } else { mixed };
    prop_oneof![
        w(22, 22) => prop::collection::vec(any::<u16>(), 1..=2).prop_map(|parents| Op::NewCommit { parents }),
        w(16, 2) => any::<u16>().prop_map(|commit| Op::Rewrite { commit }),
        w(14, 2) => any::<u16>().prop_map(|commit| Op::Abandon { commit }),
        w(18, 30) => (0u8..3, any::<u16>()).prop_map(|(name, commit)| Op::SetBookmark { name, commit }),
        w(4, 6) => (0u8..3).prop_map(|name| Op::DeleteBookmark { name }),
        w(6, 14) => (0u8..2, any::<u16>()).prop_map(|(name, commit)| Op::SetTag { name, commit }),
        w(2, 3) => (0u8..2).prop_map(|name| Op::DeleteTag { name }),
        w(9, 11) => (0u8..2, any::<u16>()).prop_map(|(ws, commit)| Op::Edit { ws, commit }),
        w(6, 7) => (0u8..2, any::<u16>()).prop_map(|(ws, commit)| Op::CheckOut { ws, commit }),
        w(3, 3) => (0u8..2).prop_map(|ws| Op::RemoveWorkspace { ws }),
    ]
}

fn ref_init() -> impl Strategy<Value = RefInit> {
    prop_oneof![
        30 => Just(RefInit::Absent),
        60 => any::<u16>().prop_map(RefInit::Normal),
        10 => any::<[u16; 3]>().prop_map(RefInit::Conflict),
    ]
}

fn case_strategy() -> impl Strategy<Value = Case> {
    prop::bool::weighted(0.45).prop_flat_map(|refs_heavy| {
        let ops = move || prop::collection::vec(op_strategy(refs_heavy), 1..=4);
        (
            dag_spec(2..=7usize, 2, 50),
            prop::collection::vec(ref_init(), 3),
            prop::collection::vec(ref_init(), 2),
            prop::collection::vec(prop::option::weighted(0.7, any::<u16>()), 2),
            prop_oneof![
                70 => prop::collection::vec(ops(), 2),
                30 => prop::collection::vec(ops(), 3),
            ],
            prop::option::weighted(0.6, (ops(), ops())),
        )
            .prop_map(|(dag, bookmarks, tags, wcs, sides, round2)| Case {
                dag,
                bookmarks,
                tags,
                wcs,
                sides,
                round2,
            })
    })
}

fn settings() -> UserSettings {
    let mut config = testutils::base_user_config();
    config.add_layer(
        ConfigLayer::parse(
            ConfigSource::User,
            "debug.commit-timestamp = 2001-02-03T04:05:06+07:00\n\
             debug.operation-timestamp = 2001-02-03T04:05:06+07:00\n",
        )
        .expect("static config"),
    );
    UserSettings::from_config(config).expect("settings")
}

fn err<E: std::fmt::Debug>(what: &str) -> impl Fn(E) -> Violation + '_ {
    move |e| Violation::new(format!("unexpected error in {what}: {e:?}"))
}

fn ref_name(name: &str) -> &RefName {
    name.as_ref()
}

/// Commit metadata read from the store (trusted: content-addressed objects),
/// closed under parents.
struct Universe {
    store: Arc<Store>,
    info: BTreeMap<CommitId, (Vec<CommitId>, ChangeId)>,
}

impl Universe {
    fn new(store: Arc<Store>) -> Self {
        Self { store, info: BTreeMap::new() }
    }

    fn ensure(&mut self, id: &CommitId) -> Result<(), Violation> {
        let mut stack = vec![id.clone()];
        while let Some(id) = stack.pop() {
            if self.info.contains_key(&id) {
                continue;
            }
            let commit = self.store.get_commit(&id).map_err(err("reading a commit named by a view"))?;
            let parents = commit.parent_ids().to_vec();
            stack.extend(parents.iter().cloned());
            self.info.insert(id, (parents, commit.change_id().clone()));
        }
        Ok(())
    }

    fn ancestors(&mut self, ids: impl IntoIterator<Item = CommitId>) -> Result<BTreeSet<CommitId>, Violation> {
        let mut seen = BTreeSet::new();
        let mut stack: Vec<CommitId> = ids.into_iter().collect();
        while let Some(id) = stack.pop() {
            if !seen.insert(id.clone()) {
                continue;
            }
            self.ensure(&id)?;
            stack.extend(self.info[&id].0.iter().cloned());
        }
        Ok(seen)
    }

    fn change(&self, id: &CommitId) -> &ChangeId {
        &self.info[id].1
    }

    /// Model indices (sorted commit ids) and the ancestry matrix over them.
    fn matrix(&self) -> (Vec<CommitId>, AncestryMatrix) {
        let ids: Vec<CommitId> = self.info.keys().cloned().collect();
        let pos: BTreeMap<&CommitId, usize> = ids.iter().enumerate().map(|(i, id)| (id, i)).collect();
        let parents: Vec<Vec<usize>> = ids
            .iter()
            .map(|id| self.info[id].0.iter().map(|p| pos[p]).collect())
            .collect();
        let matrix = AncestryMatrix::from_parents(&parents);
        (ids, matrix)
    }
}

/// What the oracle reads from a committed view.
#[derive(Debug, Clone, PartialEq, Eq)]
struct Snap {
    heads: BTreeSet<CommitId>,
    visible: BTreeSet<CommitId>,
    bookmarks: BTreeMap<String, RefTarget>,
    tags: BTreeMap<String, RefTarget>,
    wcs: BTreeMap<String, CommitId>,
}

impl Snap {
    fn take(u: &mut Universe, view: &View) -> Result<Self, Violation> {
        let heads: BTreeSet<CommitId> = view.heads().iter().cloned().collect();
        let visible = u.ancestors(heads.iter().cloned())?;
        let bookmarks: BTreeMap<String, RefTarget> = view
            .local_bookmarks()
            .map(|(n, t)| (n.as_str().to_string(), t.clone()))
            .collect();
        let tags: BTreeMap<String, RefTarget> =
            view.local_tags().map(|(n, t)| (n.as_str().to_string(), t.clone())).collect();
        let wcs: BTreeMap<String, CommitId> = view
            .wc_commit_ids()
            .iter()
            .map(|(n, id)| (n.as_str().to_string(), id.clone()))
            .collect();
        for t in bookmarks.values().chain(tags.values()) {
            for id in t.as_merge().iter().flatten() {
                u.ensure(id)?;
            }
        }
        for id in wcs.values() {
            u.ensure(id)?;
        }
        Ok(Self { heads, visible, bookmarks, tags, wcs })
    }

    fn changes(&self, u: &Universe) -> BTreeMap<ChangeId, BTreeSet<CommitId>> {
        let mut m: BTreeMap<ChangeId, BTreeSet<CommitId>> = BTreeMap::new();
        for id in &self.visible {
            m.entry(u.change(id).clone()).or_default().insert(id.clone());
        }
        m
    }

    fn bookmark(&self, name: &str) -> RefTarget {
        self.bookmarks.get(name).cloned().unwrap_or_else(RefTarget::absent)
    }
    fn tag(&self, name: &str) -> RefTarget {
        self.tags.get(name).cloned().unwrap_or_else(RefTarget::absent)
    }
}

fn visible_in(mut_repo: &MutableRepo) -> Result<BTreeSet<CommitId>, Violation> {
    let store = mut_repo.store().clone();
    let mut seen = BTreeSet::new();
    let mut stack: Vec<CommitId> = mut_repo.view().heads().iter().cloned().collect();
    while let Some(id) = stack.pop() {
        if !seen.insert(id.clone()) {
            continue;
        }
        let commit = store.get_commit(&id).map_err(err("reading a visible commit"))?;
        stack.extend(commit.parent_ids().iter().cloned());
    }
    Ok(seen)
}

/// Appends the visible commits not yet in `order` (sorted by id, which is a
/// deterministic function of the case).
fn extend_order(order: &mut Vec<CommitId>, visible: &BTreeSet<CommitId>, root: &CommitId) {
    for id in visible {
        if id != root && !order.contains(id) {
            order.push(id.clone());
        }
    }
}

#[derive(Default, Debug, Clone)]
struct OpStats {
    executed: usize,
    skipped: usize,
}

/// Runs one side's op list inside a transaction. `order` is the stable
/// enumeration of commits the selectors index into (restricted to what is
/// visible at that moment).
fn run_ops(
    mut_repo: &mut MutableRepo,
    ops: &[Op],
    order: &mut Vec<CommitId>,
    tag: &str,
    change_base: u64,
    stats: &mut OpStats,
) -> Result<(), Violation> {
    let root = mut_repo.store().root_commit_id().clone();
    for (k, op) in ops.iter().enumerate() {
        let visible = visible_in(mut_repo)?;
        extend_order(order, &visible, &root);
        let candidates: Vec<CommitId> = order.iter().filter(|id| visible.contains(*id)).cloned().collect();
        let choose = |raw: u16| -> Option<CommitId> {
            if candidates.is_empty() { None } else { Some(candidates[pick(raw, candidates.len())].clone()) }
        };
        let get = |mut_repo: &MutableRepo, id: &CommitId| {
            mut_repo.store().get_commit(id).map_err(err("reading a chosen commit"))
        };
        let mut done = true;
        match op {
            Op::NewCommit { parents } => {
                let mut with_root = vec![root.clone()];
                with_root.extend(candidates.iter().cloned());
                let mut ps: Vec<CommitId> = vec![];
                for raw in parents {
                    let p = with_root[pick(*raw, with_root.len())].clone();
                    if !ps.contains(&p) {
                        ps.push(p);
                    }
                }
                if ps.len() > 1 {
                    ps.retain(|p| *p != root);
                }
                let parent_commits = ps.iter().map(|p| get(mut_repo, p)).collect::<Result<Vec<_>, _>>()?;
                let tree = jj_lib::rewrite::merge_commit_trees(mut_repo, &parent_commits)
                    .block_on()
                    .map_err(err("merge_commit_trees"))?;
                let sig = signature(BASE_TS + 1000 * (change_base as i64 + k as i64));
                mut_repo
                    .new_commit(ps, tree)
                    .set_change_id(change_id(change_base + k as u64))
                    .set_description(format!("{tag}n{k}"))
                    .set_author(sig.clone())
                    .set_committer(sig)
                    .write()
                    .block_on()
                    .map_err(err("new_commit"))?;
            }
            Op::Rewrite { commit } => match choose(*commit) {
                Some(id) => {
                    let c = get(mut_repo, &id)?;
                    mut_repo
                        .rewrite_commit(&c)
                        .set_description(format!("{tag}r{k}"))
                        .write()
                        .block_on()
                        .map_err(err("rewrite_commit"))?;
                }
                None => done = false,
            },
            Op::Abandon { commit } => match choose(*commit) {
                Some(id) => {
                    let c = get(mut_repo, &id)?;
                    mut_repo.record_abandoned_commit(&c);
                }
                None => done = false,
            },
            Op::SetBookmark { name, commit } => match choose(*commit) {
                Some(id) => {
                    let name = BOOKMARKS[(*name as usize).min(BOOKMARKS.len() - 1)];
                    mut_repo.set_local_bookmark_target(ref_name(name), RefTarget::normal(id));
                }
                None => done = false,
            },
            Op::DeleteBookmark { name } => {
                let name = BOOKMARKS[(*name as usize).min(BOOKMARKS.len() - 1)];
                mut_repo.set_local_bookmark_target(ref_name(name), RefTarget::absent());
            }
            Op::SetTag { name, commit } => match choose(*commit) {
                Some(id) => {
                    let name = TAGS[(*name as usize).min(TAGS.len() - 1)];
                    mut_repo.set_local_tag_target(ref_name(name), RefTarget::normal(id));
                }
                None => done = false,
            },
            Op::DeleteTag { name } => {
                let name = TAGS[(*name as usize).min(TAGS.len() - 1)];
                mut_repo.set_local_tag_target(ref_name(name), RefTarget::absent());
            }
            Op::Edit { ws, commit } => match choose(*commit) {
                Some(id) => {
                    let ws = WorkspaceNameBuf::from(WORKSPACES[(*ws as usize).min(WORKSPACES.len() - 1)]);
                    let c = get(mut_repo, &id)?;
                    mut_repo.edit(ws, &c).block_on().map_err(err("edit"))?;
                }
                None => done = false,
            },
            Op::CheckOut { ws, commit } => match choose(*commit) {
                Some(id) => {
                    let ws = WorkspaceNameBuf::from(WORKSPACES[(*ws as usize).min(WORKSPACES.len() - 1)]);
                    let c = get(mut_repo, &id)?;
                    mut_repo.check_out(ws, &c).block_on().map_err(err("check_out"))?;
                }
                None => done = false,
            },
            Op::RemoveWorkspace { ws } => {
                let ws = WorkspaceNameBuf::from(WORKSPACES[(*ws as usize).min(WORKSPACES.len() - 1)]);
                mut_repo.remove_workspace(&ws).block_on().map_err(err("remove_workspace"))?;
            }
        }
        mut_repo.rebase_descendants().block_on().map_err(err("rebase_descendants"))?;
        if done {
            stats.executed += 1;
        } else {
            stats.skipped += 1;
        }
    }
    let visible = visible_in(mut_repo)?;
    extend_order(order, &visible, &root);
    Ok(())
}

#[derive(Default, Debug, Clone)]
struct MergeStats {
    same_bookmark_changed: bool,
    rewrite_interaction: bool,
    hidden_commits: bool,
    clean_bookmark_conflict: bool,
    clean_bookmark_both_changed: bool,
    unclean_bookmark: bool,
    one_sided_follow: bool,
    tag_both_changed: bool,
    wc_both_changed: bool,
    wc_follow: bool,
    divergent_result: bool,
    rebased_in_merge: bool,
    divergent_old_visible: bool,
    clean_bookmark_fast_forward: bool,
}

fn tr_key(t: &RefTarget) -> String {
    format!("{t:?}")
}

fn to_target(t: &RefTarget, ids: &[CommitId]) -> Target {
    Target::from_ref_target(t, |id| ids.binary_search(id).ok()).expect("universe is closed over ref targets")
}

/// The per-order oracle: `sides[0]` is the side the merge starts from, the
/// others are merged into it in order, all over `base`.
fn check_merge_result(
    u: &mut Universe,
    base: &Snap,
    sides: &[&Snap],
    result: &Snap,
    label: &str,
) -> Result<MergeStats, Violation> {
    let mut stats = MergeStats::default();
    let (ids, anc) = u.matrix();
    let base_changes = base.changes(u);
    let side_changes: Vec<_> = sides.iter().map(|s| s.changes(u)).collect();
    let result_changes = result.changes(u);
    let hidden_by: Vec<BTreeSet<CommitId>> =
        sides.iter().map(|s| base.visible.difference(&s.visible).cloned().collect()).collect();
    let hidden_any: BTreeSet<CommitId> = hidden_by.iter().flatten().cloned().collect();
    stats.hidden_commits = !hidden_any.is_empty();
    // A change is divergent if more than one commit carries it, in one view or
    // across the sides (two sides rewrote the same commit differently). For
    // those jj documents that descendants of the old commit are left alone
    // (`set_divergent_rewrite`), so the old commit may stay visible.
    let mut divergent: BTreeSet<ChangeId> = BTreeSet::new();
    let mut carriers: BTreeMap<ChangeId, BTreeSet<CommitId>> = BTreeMap::new();
    for m in std::iter::once(&base_changes).chain(&side_changes) {
        for (c, set) in m {
            if set.len() > 1 {
                divergent.insert(c.clone());
            }
        }
    }
    for m in &side_changes {
        for (c, set) in m {
            // only commits the sides made (rewrites), not the base's own commit
            carriers
                .entry(c.clone())
                .or_default()
                .extend(set.iter().filter(|id| !base.visible.contains(*id)).cloned());
        }
    }
    for (c, set) in &carriers {
        if set.len() > 1 {
            divergent.insert(c.clone());
        }
    }
    // A commit is stable if neither it nor any ancestor was hidden by any side:
    // nothing in the merge rewrites it.
    let mut stable_cache: BTreeMap<CommitId, bool> = BTreeMap::new();
    let mut stable = |u: &mut Universe, id: &CommitId| -> Result<bool, Violation> {
        if let Some(s) = stable_cache.get(id) {
            return Ok(*s);
        }
        let s = u.ancestors([id.clone()])?.is_disjoint(&hidden_any);
        stable_cache.insert(id.clone(), s);
        Ok(s)
    };

    // (A) No change is lost: a change visible on some side disappears only if
    // another side hid it.
    for (i, changes) in side_changes.iter().enumerate() {
        for (c, commits) in changes {
            let hidden_elsewhere = side_changes
                .iter()
                .enumerate()
                .any(|(t, other)| t != i && base_changes.contains_key(c) && !other.contains_key(c));
            // (with several carriers of one change, each side may abandon a
            // different one, and together they remove the change)
            if !hidden_elsewhere && !divergent.contains(c) {
                ensure!(
                    result_changes.contains_key(c),
                    "{label}: change {c:?} (commits {commits:?}) is visible on the side at merge position {i}, no other side hid it, \
                     but the merged view has no visible commit with it"
                );
            }
        }
    }
    // (A') Commits nobody touched stay as they are.
    for (i, s) in sides.iter().enumerate() {
        for id in &s.visible {
            if stable(u, id)? {
                ensure!(
                    result.visible.contains(id),
                    "{label}: commit {id:?} is visible on the side at merge position {i} and neither it nor an ancestor was hidden by any \
                     side, but it is not visible in the merged view"
                );
            } else if !base.visible.contains(id) {
                stats.rewrite_interaction = true;
            }
        }
    }
    // (B) What a side abandoned or rewrote is hidden.
    // Old commits of divergent changes that stayed visible (documented: their
    // descendants are left alone), and with them, necessarily, their ancestors.
    let mut excused: BTreeSet<CommitId> = BTreeSet::new();
    for id in &hidden_any {
        if divergent.contains(u.change(id)) && result.visible.contains(id) {
            stats.divergent_old_visible = true;
            excused.extend(u.ancestors([id.clone()])?);
        }
    }
    for (i, hidden) in hidden_by.iter().enumerate() {
        for id in hidden {
            if excused.contains(id) {
                continue;
            }
            ensure!(
                !result.visible.contains(id),
                "{label}: commit {id:?} was abandoned or rewritten by the side at merge position {i} but is visible \
                 in the merged view"
            );
        }
    }
    stats.divergent_result = result_changes.values().any(|s| s.len() > 1);
    stats.rebased_in_merge = result
        .visible
        .iter()
        .any(|id| !base.visible.contains(id) && sides.iter().all(|s| !s.visible.contains(id)));

    // (C) Bookmarks.
    let names: BTreeSet<String> = std::iter::once(base)
        .chain(sides.iter().copied())
        .chain(std::iter::once(result))
        .flat_map(|s| s.bookmarks.keys().cloned())
        .collect();
    for name in &names {
        let vb = base.bookmark(name);
        let vs: Vec<RefTarget> = sides.iter().map(|s| s.bookmark(name)).collect();
        let vr = result.bookmark(name);
        let changed: Vec<usize> = (0..vs.len()).filter(|i| vs[*i] != vb).collect();
        if changed.len() >= 2 {
            stats.same_bookmark_changed = true;
        }
        let mut clean = true;
        for t in std::iter::once(&vb).chain(&vs) {
            // removed ids too: a remove of the base is an add of the merge
            for id in t.as_merge().iter().flatten() {
                if !stable(u, id)? {
                    clean = false;
                }
            }
        }
        // Every commit a bookmark points to is visible (it followed rewrites).
        for id in vr.added_ids() {
            ensure!(
                result.visible.contains(id),
                "{label}: bookmark {name} = {vr:?} points to {id:?}, which is not visible in the merged view"
            );
        }
        if clean {
            let tb = to_target(&vb, &ids);
            let ts: Vec<Target> = vs.iter().map(|t| to_target(t, &ids)).collect();
            let tr = to_target(&vr, &ids);
            let expected = merge_many(&anc, &tb, &ts);
            ensure!(
                expected.contains(&tr.canon()),
                "{label}: bookmark {name}: base {vb:?}, sides (in merge order) {vs:?}: merged view has {vr:?}, \
                 the ref-merge model allows {:?}",
                expected.iter().map(|c| c.to_target().to_ref_target(&ids)).collect::<Vec<_>>()
            );
            if changed.len() >= 2 {
                stats.clean_bookmark_both_changed = true;
                if vr.has_conflict() {
                    stats.clean_bookmark_conflict = true;
                } else {
                    let distinct: BTreeSet<_> = changed.iter().map(|i| tr_key(&vs[*i])).collect();
                    if distinct.len() >= 2 {
                        stats.clean_bookmark_fast_forward = true;
                    }
                }
            }
        } else {
            stats.unclean_bookmark = true;
            // One side moved the bookmark to a commit that another side rewrote
            // (or whose ancestor it rewrote): it follows the rewrite.
            if let [i] = changed.as_slice()
                && let Some(x) = vs[*i].as_normal()
                && !divergent.contains(u.change(x))
                && result_changes.contains_key(u.change(x))
                // no side abandoned x (then the bookmark may have moved to the
                // parents before another side's rewrite of x arrived)
                && side_changes.iter().all(|m| m.contains_key(u.change(x)) || !base_changes.contains_key(u.change(x)))
            {
                stats.one_sided_follow = true;
                ensure!(vr.is_present(), "{label}: bookmark {name} set by the side at merge position {i} to {x:?} is absent after the merge");
                for id in vr.added_ids() {
                    ensure!(
                        u.change(id) == u.change(x),
                        "{label}: bookmark {name} was moved only by the side at merge position {i} (to {x:?}); after following the other \
                         sides' rewrites it is {vr:?}, which names {id:?} of a different change"
                    );
                }
            }
            // Nobody changed it and its target was not rewritten by anybody → unchanged.
        }
    }

    // (D) Tags never follow rewrites: the pure fold of the ref-merge model.
    let names: BTreeSet<String> = std::iter::once(base)
        .chain(sides.iter().copied())
        .chain(std::iter::once(result))
        .flat_map(|s| s.tags.keys().cloned())
        .collect();
    for name in &names {
        let vb = base.tag(name);
        let vs: Vec<RefTarget> = sides.iter().map(|s| s.tag(name)).collect();
        let vr = result.tag(name);
        if (0..vs.len()).filter(|i| vs[*i] != vb).count() >= 2 {
            stats.tag_both_changed = true;
        }
        let tb = to_target(&vb, &ids);
        let ts: Vec<Target> = vs.iter().map(|t| to_target(t, &ids)).collect();
        let tr = to_target(&vr, &ids);
        let expected = merge_many(&anc, &tb, &ts);
        ensure!(
            expected.contains(&tr.canon()),
            "{label}: tag {name}: base {vb:?}, sides (in merge order) {vs:?}: merged view has {vr:?}, the ref-merge \
             model allows {:?}",
            expected.iter().map(|c| c.to_target().to_ref_target(&ids)).collect::<Vec<_>>()
        );
    }

    // (E) Working copies: the documented rule of merge_wc_commit, folded in
    // merge order; a value whose commit was rewritten follows the rewrite.
    let names: BTreeSet<String> = std::iter::once(base)
        .chain(sides.iter().copied())
        .chain(std::iter::once(result))
        .flat_map(|s| s.wcs.keys().cloned())
        .collect();
    for name in &names {
        let wb = base.wcs.get(name);
        let ws: Vec<Option<&CommitId>> = sides.iter().map(|s| s.wcs.get(name)).collect();
        let wr = result.wcs.get(name);
        let changed: Vec<usize> = (0..ws.len()).filter(|i| ws[*i] != wb).collect();
        let distinct_changed: BTreeSet<Option<&CommitId>> = changed.iter().map(|i| ws[*i]).collect();
        if distinct_changed.len() >= 2 {
            stats.wc_both_changed = true;
        }
        let mut cur = ws[0];
        let mut fragile = false;
        for other in &ws[1..] {
            if *other == wb {
                continue;
            }
            if let Some(x) = cur
                && !stable(u, x)?
            {
                // The real intermediate value already followed a rewrite; the
                // equalities below may come out differently.
                fragile = true;
            }
            cur = if cur == *other {
                cur
            } else if cur == wb {
                *other
            } else if cur.is_none() || other.is_none() {
                // documented: removal wins
                None
            } else {
                // documented: the side merged into (self) is kept
                cur
            };
        }
        if let Some(id) = wr {
            ensure!(
                result.visible.contains(id),
                "{label}: working copy {name} = {id:?} is not visible in the merged view"
            );
        }
        let describe = || format!("base {wb:?}, sides (in merge order) {ws:?}");
        if fragile {
            // Weak form: one of the candidates (None only if somebody removed it).
            if wr.is_none() {
                ensure!(
                    ws.iter().any(|w| w.is_none()) || wb.is_none(),
                    "{label}: working copy {name} removed by the merge although no side removed it ({})",
                    describe()
                );
            }
        } else {
            match cur {
                None => ensure!(wr.is_none(), "{label}: working copy {name}: {}: expected removal, got {wr:?}", describe()),
                Some(x) if stable(u, x)? => ensure!(
                    wr == Some(x),
                    "{label}: working copy {name}: {}: expected {x:?} (one-sided change, or the side merged into \
                     wins a conflict), got {wr:?}",
                    describe()
                ),
                Some(x) => {
                    stats.wc_follow = true;
                    // x or an ancestor was rewritten/abandoned by some side: the
                    // working copy follows (same change if the change survives).
                    let Some(y) = wr else {
                        return Err(Violation::new(format!(
                            "{label}: working copy {name}: {}: expected a rewrite of {x:?}, got removal",
                            describe()
                        )));
                    };
                    if result_changes.contains_key(u.change(x))
                        && !divergent.contains(u.change(x))
                        && side_changes
                            .iter()
                            .all(|m| m.contains_key(u.change(x)) || !base_changes.contains_key(u.change(x)))
                    {
                        ensure!(
                            u.change(y) == u.change(x),
                            "{label}: working copy {name}: {}: expected a commit of the change of {x:?}, got {y:?}",
                            describe()
                        );
                    }
                }
            }
        }
        // The commit of a side that lost a working-copy conflict is still there.
        for w in ws.iter().flatten() {
            if stable(u, w)? {
                ensure!(
                    result.visible.contains(*w),
                    "{label}: working-copy commit {w:?} of a side is not visible in the merged view"
                );
            }
        }
    }
    Ok(stats)
}

fn permutations(n: usize) -> Vec<Vec<usize>> {
    fn go(prefix: &mut Vec<usize>, n: usize, out: &mut Vec<Vec<usize>>) {
        if prefix.len() == n {
            out.push(prefix.clone());
            return;
        }
        for i in 0..n {
            if !prefix.contains(&i) {
                prefix.push(i);
                go(prefix, n, out);
                prefix.pop();
            }
        }
    }
    let mut out = vec![];
    go(&mut vec![], n, &mut out);
    out
}

/// Signature of the known finding: with equal commit timestamps (pinned here;
/// same-second with the git backend) the merge's own rebase can reproduce a
/// commit that one of the sides already wrote, and `CommitBuilder::write`
/// refuses it ("Newly-created commit … already exists"), which fails the whole
/// reconciliation.
const SIG_COLLISION: &str = "C13-merge-rebase-reproduces-existing-commit";

fn is_collision<E: std::fmt::Debug>(e: &E) -> bool {
    let text = format!("{e:?}");
    text.contains("Newly-created commit") && text.contains("already exists")
}

/// `Ok(None)` when the merge failed with the known collision error.
fn merge_ops(
    repo: &Arc<ReadonlyRepo>,
    ops: Vec<Operation>,
    what: &str,
) -> Result<Option<Arc<ReadonlyRepo>>, Violation> {
    let expected_parents: Vec<_> = ops.iter().map(|op| op.id().clone()).collect();
    let merged = match repo.loader().merge_operations(ops, None, Some(what), []).block_on() {
        Ok((merged, _num_rebased)) => merged,
        Err(e) if is_collision(&e) => return Ok(None),
        Err(e) => return Err(err("merge_operations")(e)),
    };
    ensure!(
        merged.operation().parent_ids() == expected_parents.as_slice(),
        "{what}: merged operation has parents {:?}, expected {:?}",
        merged.operation().parent_ids(),
        expected_parents
    );
    Ok(Some(merged))
}

fn init_ref(init: &RefInit, commits: &[CommitId]) -> RefTarget {
    // commits[0] is the root; initial refs point at non-root commits.
    let non_root = &commits[1..];
    let at = |raw: u16| non_root[pick(raw, non_root.len())].clone();
    match init {
        RefInit::Absent => RefTarget::absent(),
        RefInit::Normal(raw) => RefTarget::normal(at(*raw)),
        RefInit::Conflict([a, r, b]) => {
            let (a, r, b) = (at(*a), at(*r), at(*b));
            if a == r || b == r || a == b {
                RefTarget::normal(a)
            } else {
                RefTarget::from_merge(jj_lib::merge::Merge::from_vec(vec![Some(a), Some(r), Some(b)]))
            }
        }
    }
}

fn or_all(stats: &[MergeStats], f: fn(&MergeStats) -> bool) -> bool {
    stats.iter().any(f)
}

fn check(case: &Case) -> CheckResult {
    let settings = settings();
    let test_repo = TestRepo::init_with_settings(&settings);
    let repo0 = test_repo.repo.clone();
    let store = repo0.store().clone();

    // Base repository.
    let dag = Dag::from_spec(&case.dag);
    let mut tx = repo0.start_transaction();
    let mut commits = vec![];
    write_nodes(tx.repo_mut(), &dag, 1..dag.len(), &mut commits, &BuildOpts::default());
    let commit_ids: Vec<CommitId> = commits.iter().map(|c| c.id().clone()).collect();
    for (i, init) in case.bookmarks.iter().take(BOOKMARKS.len()).enumerate() {
        tx.repo_mut().set_local_bookmark_target(ref_name(BOOKMARKS[i]), init_ref(init, &commit_ids));
    }
    for (i, init) in case.tags.iter().take(TAGS.len()).enumerate() {
        tx.repo_mut().set_local_tag_target(ref_name(TAGS[i]), init_ref(init, &commit_ids));
    }
    for (i, wc) in case.wcs.iter().take(WORKSPACES.len()).enumerate() {
        if let Some(raw) = wc {
            let non_root = &commit_ids[1..];
            tx.repo_mut()
                .set_wc_commit(WorkspaceNameBuf::from(WORKSPACES[i]), non_root[pick(*raw, non_root.len())].clone())
                .map_err(err("set_wc_commit"))?;
        }
    }
    let base_repo = tx.commit("base").block_on().map_err(err("commit base"))?;
    let mut u = Universe::new(store);
    let base_snap = Snap::take(&mut u, base_repo.view())?;
    let base_order: Vec<CommitId> = commit_ids[1..].to_vec();

    // Round 1: concurrent transactions from the base.
    let mut op_stats = OpStats::default();
    let mut side_repos: Vec<Arc<ReadonlyRepo>> = vec![];
    let mut side_snaps: Vec<Snap> = vec![];
    for (s, ops) in case.sides.iter().enumerate() {
        let mut tx = base_repo.start_transaction();
        let mut order = base_order.clone();
        run_ops(tx.repo_mut(), ops, &mut order, &format!("s{s}"), 1000 * (s as u64 + 1), &mut op_stats)?;
        let repo = tx.commit(format!("side {s}")).block_on().map_err(err("commit side"))?;
        side_snaps.push(Snap::take(&mut u, repo.view())?);
        side_repos.push(repo);
    }
    let k = side_repos.len();
    ensure!(k >= 2, "case has fewer than two sides");
    let mut all_stats: Vec<MergeStats> = vec![];
    let mut merged_by_order: BTreeMap<Vec<usize>, (Arc<ReadonlyRepo>, Snap)> = BTreeMap::new();
    let mut collisions: Vec<String> = vec![];
    for perm in permutations(k) {
        let ops: Vec<Operation> = perm.iter().map(|i| side_repos[*i].operation().clone()).collect();
        let label = format!("merge_operations order {perm:?}");
        let Some(merged) = merge_ops(&base_repo, ops, &label)? else {
            collisions.push(label);
            continue;
        };
        let snap = Snap::take(&mut u, merged.view())?;
        let sides: Vec<&Snap> = perm.iter().map(|i| &side_snaps[*i]).collect();
        all_stats.push(check_merge_result(&mut u, &base_snap, &sides, &snap, &label)?);
        merged_by_order.insert(perm, (merged, snap));
    }

    // load_at_head reconciles the published heads in an order of its choosing.
    match base_repo.loader().load_at_head().block_on() {
        Err(e) if is_collision(&e) => collisions.push("load_at_head".to_string()),
        Err(e) => return Err(err("load_at_head")(e)),
        Ok(at_head) => {
            let parents = at_head.operation().parent_ids().to_vec();
            let mut order: Vec<usize> = vec![];
            for p in &parents {
                let Some(i) = side_repos.iter().position(|r| r.operation().id() == p) else {
                    return Err(Violation::new(format!(
                        "load_at_head: reconciling operation has parent {p:?}, which is none of the published operations"
                    )));
                };
                order.push(i);
            }
            let mut sorted = order.clone();
            sorted.sort();
            ensure!(
                sorted == (0..k).collect::<Vec<_>>(),
                "load_at_head: reconciling operation merges sides {order:?}, expected every one of the {k} published \
                 operations once"
            );
            let snap = Snap::take(&mut u, at_head.view())?;
            let sides: Vec<&Snap> = order.iter().map(|i| &side_snaps[*i]).collect();
            all_stats.push(check_merge_result(
                &mut u,
                &base_snap,
                &sides,
                &snap,
                &format!("load_at_head (order {order:?})"),
            )?);
            // A fresh loader sees the reconciled operation as the single head.
            let fresh = test_repo.env.load_repo_at_head(&settings, test_repo.repo_path());
            ensure!(
                fresh.operation().id() == at_head.operation().id(),
                "a fresh loader resolves head {:?}, load_at_head returned {:?}",
                fresh.operation().id(),
                at_head.operation().id()
            );
        }
    }

    // Round 2: criss-cross. C on top of merge(0,1), D on top of merge(1,0).
    let mut criss_cross = false;
    let mut ambiguous_base = false;
    if k == 2
        && let Some((ops_c, ops_d)) = &case.round2
        && let Some((m1, snap1)) = merged_by_order.get(&vec![0, 1]).cloned()
        && let Some((m2, snap2)) = merged_by_order.get(&vec![1, 0]).cloned()
    {
        criss_cross = true;
        let mut repos = vec![];
        let mut snaps = vec![];
        for (j, (m, snap, ops)) in [(&m1, &snap1, ops_c), (&m2, &snap2, ops_d)].into_iter().enumerate() {
            let mut tx = m.start_transaction();
            let mut order: Vec<CommitId> = base_order.iter().filter(|id| snap.visible.contains(*id)).cloned().collect();
            run_ops(tx.repo_mut(), ops, &mut order, &format!("r{j}"), 1000 * (j as u64 + 5), &mut op_stats)?;
            let repo = tx
                .write(format!("round2 side {j}"))
                .block_on()
                .map_err(err("write round-2 transaction"))?
                .leave_unpublished();
            snaps.push(Snap::take(&mut u, repo.view())?);
            repos.push(repo);
        }
        ambiguous_base = snap1 != snap2;
        for perm in permutations(2) {
            let ops: Vec<Operation> = perm.iter().map(|i| repos[*i].operation().clone()).collect();
            let label = format!("criss-cross merge_operations order {perm:?}");
            let Some(merged) = merge_ops(&base_repo, ops, &label)? else {
                collisions.push(label);
                continue;
            };
            let snap = Snap::take(&mut u, merged.view())?;
            if !ambiguous_base {
                let sides: Vec<&Snap> = perm.iter().map(|i| &snaps[*i]).collect();
                all_stats.push(check_merge_result(&mut u, &snap1, &sides, &snap, &label)?);
            } else {
                // The two first-round merges differ (e.g. a working-copy conflict
                // resolved differently), so the base of this merge is not
                // determined. Only brand-new changes are checked.
                let before1 = snap1.changes(&u);
                let before2 = snap2.changes(&u);
                let after = snap.changes(&u);
                for (j, s) in snaps.iter().enumerate() {
                    for (c, ids) in s.changes(&u) {
                        if !before1.contains_key(&c) && !before2.contains_key(&c) {
                            ensure!(
                                after.contains_key(&c),
                                "{label}: change {c:?} ({ids:?}) created by round-2 side {j} has no visible commit after the merge"
                            );
                        }
                    }
                }
            }
        }
    }

    if !collisions.is_empty() {
        return Err(Violation::known(
            SIG_COLLISION,
            format!(
                "reconciliation failed with \"Newly-created commit … already exists\" in: {collisions:?} (the merge's \
                 rebase reproduced, bit for bit, a commit a side had already written; commit timestamps are pinned)"
            ),
        ));
    }
    let same_bookmark = or_all(&all_stats, |s| s.same_bookmark_changed);
    let interaction = or_all(&all_stats, |s| s.rewrite_interaction);
    Ok(Outcome::new(same_bookmark || interaction)
        .class_if(k == 3, "three-sides")
        .class_if(same_bookmark, "same-bookmark-changed")
        .class_if(interaction, "rewrite-under-new-work")
        .class_if(or_all(&all_stats, |s| s.hidden_commits), "some-side-hides-commits")
        .class_if(or_all(&all_stats, |s| s.rebased_in_merge), "merge-rebased-commits")
        .class_if(or_all(&all_stats, |s| s.clean_bookmark_both_changed), "bookmark-both-changed(model-exact)")
        .class_if(or_all(&all_stats, |s| s.clean_bookmark_conflict), "bookmark-conflict-result")
        .class_if(or_all(&all_stats, |s| s.clean_bookmark_fast_forward), "bookmark-both-changed-resolved(ff-or-cancel)")
        .class_if(or_all(&all_stats, |s| s.unclean_bookmark), "bookmark-on-rewritten-commit")
        .class_if(or_all(&all_stats, |s| s.one_sided_follow), "bookmark-one-sided-follow")
        .class_if(or_all(&all_stats, |s| s.tag_both_changed), "tag-both-changed")
        .class_if(or_all(&all_stats, |s| s.wc_both_changed), "wc-both-changed")
        .class_if(or_all(&all_stats, |s| s.wc_follow), "wc-follows-rewrite")
        .class_if(or_all(&all_stats, |s| s.divergent_result), "divergent-result")
        .class_if(or_all(&all_stats, |s| s.divergent_old_visible), "divergent-rewrite-keeps-old-visible")
        .class_if(criss_cross, "criss-cross")
        .class_if(criss_cross && ambiguous_base, "criss-cross-ambiguous-base")
        .class_if(op_stats.skipped > 0, "some-op-skipped"))
}

pub fn run(report: &mut Report) {
    report.set_rule(
        "base repo = model DAG of 2..7 commits (unique change ids) with up to 3 bookmarks (10% conflicted), 2 tags, \
         2 working copies; 2 (70%) or 3 transactions from the base, each 1..4 ops (new commit, rewrite, abandon, \
         set/delete bookmark or tag, edit/check_out/remove workspace; 45% of the cases almost without rewrites; commit selectors index the side's visible \
         commits), committed, then merged with merge_operations in every order and with load_at_head; for 60% of the \
         two-sided cases a second round of two transactions on top of merge(0,1) and merge(1,0) (criss-cross), merged \
         in both orders; non-trivial = at least two sides change the same bookmark, or a commit created by one side \
         has an ancestor that another side abandoned or rewrote",
    );
    report.assume("each side's own committed view is taken as given (single-transaction behaviour is C10/C11)");
    report.assume("commit parents and change ids are read from the commit objects in the store; ancestry is BFS over them");
    report.assume(
        "working copies: the rule documented on merge_wc_commit (removal wins, otherwise the side merged into is kept)",
    );
    report.assume(
        "exact bookmark prediction only when no commit named by base or a side has a hidden ancestor; otherwise the \
         weaker follow rule (same change id, visible) is checked",
    );
    report.assume("criss-cross round: full oracle only when both first-round merge orders produced the same view");
    let cases = report.tier.pick(600, 30_000);
    report.prop("concurrent", cases, case_strategy, check);
}
