//! C44 Text truncation and wrapping respect the width.
//!
//! Functions under test (all in `jj_cli::text_util`): `elide_start/end`,
//! `write_truncated_start/end`, `write_padded_start/end/centered`, `wrap_bytes`,
//! `write_wrapped`, `write_indented`.
//!
//! jj mixes two width metrics: the sum of per-char widths (`truncate_*_pos`,
//! textwrap's `display_width`) and `UnicodeWidthStr::width` of a whole string
//! (the "does it fit" tests of `write_truncated_*`/`write_padded_*`). They differ
//! on emoji ZWJ/modifier/presentation sequences, script ligatures and control
//! characters. The oracle therefore uses `w_min = min(both)` when it claims "not
//! wider than" and `w_max = max(both)` when it claims "already fits".

use std::io;
use std::io::Write;

use jj_cli::formatter::FormatRecorder;
use jj_cli::formatter::Formatter;
use jj_cli::formatter::PlainTextFormatter;
use jj_cli::text_util;
use proptest::prelude::*;
use serde::Deserialize;
use serde::Serialize;
use unicode_width::UnicodeWidthChar as _;
use unicode_width::UnicodeWidthStr as _;

use crate::engine::runner::CheckResult;
use crate::engine::runner::Outcome;
use crate::engine::runner::Report;
use crate::engine::runner::Violation;
use crate::engine::runner::pick;
use crate::ensure;
use crate::ensure_eq;
use crate::gens::content::Bytes;

// ---------------------------------------------------------------------------
// Width metrics
// ---------------------------------------------------------------------------

/// Sum of per-character widths, control characters counting 0 (the metric of
/// `truncate_*_pos`, `skip_*_pos` and, without ESC, of textwrap).
pub fn sum_w(s: &str) -> usize {
    s.chars().map(|c| c.width().unwrap_or(0)).sum()
}

/// Width of the string as a whole (ligature/sequence aware).
pub fn str_w(s: &str) -> usize {
    s.width()
}

pub fn w_min(s: &str) -> usize {
    sum_w(s).min(str_w(s))
}

pub fn w_max(s: &str) -> usize {
    sum_w(s).max(str_w(s))
}

fn has_special(s: &str) -> bool {
    s.chars().any(|c| c.width().unwrap_or(0) != 1)
}

fn metrics_differ(s: &str) -> bool {
    sum_w(s) != str_w(s)
}

// ---------------------------------------------------------------------------
// Generators
// ---------------------------------------------------------------------------

/// Multi-character atoms on which the two metrics disagree, or which are
/// otherwise delicate (decomposed characters, jamo, width-3 character).
const SEQUENCES: &[&str] = &[
    "👨\u{200d}👩\u{200d}👧", // ZWJ sequence: sum 6, str 2
    "👍🏽",                   // modifier sequence: sum 4, str 2
    "☺\u{fe0f}",              // emoji presentation sequence: sum 1, str 2
    "❤\u{fe0f}",
    "😀\u{fe0e}", // text presentation sequence: sum 2, str 1
    "لا",         // Arabic lam-alef ligature: sum 2, str 1
    "ꓹꓼ",         // Lisu tone letters: sum 2, str 1
    "א\u{200d}ל", // Hebrew alef-lamed
    "e\u{301}",
    "a\u{300}",
    "\u{1100}\u{1161}\u{11a8}", // conjoining jamo L(2) V(0) T(0)
    "\u{17d8}",                 // KHMER SIGN BEYYAL: width 3
    "\u{115f}",                 // HANGUL CHOSEONG FILLER: width 2
    "\u{1b}[31m",               // ANSI colour sequence
    "\u{1b}[",
    "\r",
];

const NARROW: &[char] = &['a', 'b', 'c', 'x', 'y', 'z', '.', '-', 'é', 'λ', '~', '0'];
const WIDE: &[char] = &['一', '二', '三', '略', 'ｗ', '😀', '👍', '👨', '🏽', '、'];
const ZERO: &[char] = &[
    '\u{300}', '\u{301}', '\u{200b}', '\u{200d}', '\u{feff}', '\u{fe0f}', '\u{fe0e}', '\u{20dd}',
    '\u{200e}', '\u{0338}',
];
const CONTROL: &[char] = &['\t', '\u{1}', '\u{7f}', '\u{1b}', '\u{85}', '\u{8}'];

fn from_table(table: &'static [char]) -> impl Strategy<Value = String> {
    (0..table.len()).prop_map(move |i| table[i].to_string())
}

/// One atom of a single-line text.
fn atom() -> BoxedStrategy<String> {
    prop_oneof![
        10 => from_table(NARROW),
        6 => from_table(WIDE),
        4 => from_table(ZERO),
        1 => from_table(CONTROL),
        4 => (0..SEQUENCES.len()).prop_map(|i| SEQUENCES[i].to_string()),
        1 => Just(" ".to_string()),
        1 => any::<char>().prop_filter("no newline", |c| *c != '\n').prop_map(|c| c.to_string()),
    ]
    .boxed()
}

/// One atom of a multi-line text (spaces and newlines are frequent).
fn atom_multiline() -> BoxedStrategy<String> {
    prop_oneof![
        10 => atom(),
        6 => Just(" ".to_string()),
        1 => Just("  ".to_string()),
        2 => Just("\n".to_string()),
    ]
    .boxed()
}

fn text(max_atoms: usize) -> impl Strategy<Value = String> {
    prop::collection::vec(atom(), 0..=max_atoms).prop_map(|v| v.concat())
}

fn ellipsis() -> impl Strategy<Value = String> {
    prop_oneof![
        3 => Just(String::new()),
        3 => Just("…".to_string()),
        2 => Just("...".to_string()),
        2 => Just("略".to_string()),
        1 => Just("-=~".to_string()),
        4 => text(4),
        1 => text(12),
    ]
}

/// A piece of recorded content: `text` written inside the label stack `labels`.
#[derive(Debug, Clone, Serialize, Deserialize)]
pub struct Chunk {
    pub labels: Vec<u8>,
    pub text: String,
}

fn chunks(multiline: bool, max_chunks: usize, max_atoms: usize) -> impl Strategy<Value = Vec<Chunk>> {
    let atom = if multiline { atom_multiline() } else { atom() };
    let chunk = (
        prop::collection::vec(0u8..3, 0..=2),
        prop::collection::vec(atom, 0..=max_atoms),
    )
        .prop_map(|(labels, atoms)| Chunk { labels, text: atoms.concat() });
    prop::collection::vec(chunk, 0..=max_chunks)
}

fn ellipsis_chunks() -> impl Strategy<Value = Vec<Chunk>> {
    prop_oneof![
        3 => ellipsis().prop_map(|text| vec![Chunk { labels: vec![], text }]),
        1 => chunks(false, 2, 3),
    ]
}

/// Width selector: absolute 0..=40, or relative to the width of the text so that
/// the boundary cases (just fits / just does not fit) are frequent.
#[derive(Debug, Clone, Copy)]
struct WidthSel {
    raw: u16,
    relative: bool,
}

fn width_sel() -> impl Strategy<Value = WidthSel> {
    (any::<u16>(), prop::bool::weighted(0.7)).prop_map(|(raw, relative)| WidthSel { raw, relative })
}

impl WidthSel {
    fn resolve(self, text: &str) -> usize {
        if self.relative {
            pick(self.raw, w_max(text) + 3)
        } else {
            pick(self.raw, 41)
        }
    }
}

fn concat_chunks(chunks: &[Chunk]) -> String {
    chunks.iter().map(|c| c.text.as_str()).collect()
}

// ---------------------------------------------------------------------------
// Recording and observing formatters
// ---------------------------------------------------------------------------

fn label_name(l: u8) -> &'static str {
    ["l0", "l1", "l2", "l3"][usize::from(l & 3)]
}

fn stack_id(labels: &[u8]) -> u32 {
    labels.iter().fold(0, |acc, l| acc * 5 + u32::from(*l) + 1)
}

/// Builds the recorder and, independently of jj, the label stack of every data
/// byte.
fn record(chunks: &[Chunk]) -> (FormatRecorder, Vec<u32>) {
    let mut recorder = FormatRecorder::new(false);
    let mut stacks = vec![];
    for chunk in chunks {
        for l in &chunk.labels {
            recorder.push_label(label_name(*l));
        }
        recorder.write_all(chunk.text.as_bytes()).unwrap();
        stacks.extend(std::iter::repeat_n(stack_id(&chunk.labels), chunk.text.len()));
        for _ in &chunk.labels {
            recorder.pop_label();
        }
    }
    (recorder, stacks)
}

/// Formatter that remembers the label stack each output byte was written in.
#[derive(Default)]
struct Spy {
    out: Vec<u8>,
    stacks: Vec<u32>,
    labels: Vec<u8>,
    raw: Vec<u8>,
    underflow: bool,
}

impl Write for Spy {
    fn write(&mut self, data: &[u8]) -> io::Result<usize> {
        self.out.extend_from_slice(data);
        let id = stack_id(&self.labels);
        self.stacks.extend(std::iter::repeat_n(id, data.len()));
        Ok(data.len())
    }
    fn flush(&mut self) -> io::Result<()> {
        Ok(())
    }
}

impl Formatter for Spy {
    fn raw(&mut self) -> io::Result<Box<dyn Write + '_>> {
        Ok(Box::new(&mut self.raw))
    }
    fn push_label(&mut self, label: &str) {
        let l = match label {
            "l0" => 0,
            "l1" => 1,
            "l2" => 2,
            _ => 3,
        };
        self.labels.push(l);
    }
    fn pop_label(&mut self) {
        if self.labels.pop().is_none() {
            self.underflow = true;
        }
    }
    fn maybe_color(&self) -> bool {
        false
    }
}

/// Runs `f` against the observing formatter and against `PlainTextFormatter`;
/// both must produce the same bytes.
fn observe<R: PartialEq + std::fmt::Debug>(
    f: impl Fn(&mut dyn Formatter) -> io::Result<R>,
) -> Result<(Spy, R), Violation> {
    let mut spy = Spy::default();
    let r1 = f(&mut spy).map_err(|e| Violation::new(format!("io error: {e}")))?;
    let mut plain = vec![];
    let r2 = {
        let mut formatter = PlainTextFormatter::new(&mut plain);
        f(&mut formatter).map_err(|e| Violation::new(format!("io error: {e}")))?
    };
    ensure_eq!(
        bstr::BString::from(spy.out.clone()),
        bstr::BString::from(plain),
        "observing formatter and PlainTextFormatter output differ"
    );
    ensure_eq!(r1, r2, "return value depends on the formatter");
    ensure!(!spy.underflow, "more labels popped than pushed");
    ensure!(spy.labels.is_empty(), "labels left pushed: {:?}", spy.labels);
    ensure!(spy.raw.is_empty(), "unexpected raw output");
    Ok((spy, r1))
}

fn show(bytes: &[u8]) -> String {
    format!("{:?}", bstr::BStr::new(bytes))
}

// ---------------------------------------------------------------------------
// elide_start / elide_end
// ---------------------------------------------------------------------------

#[derive(Debug, Clone, Serialize, Deserialize)]
pub struct ElideCase {
    pub text: String,
    pub ellipsis: String,
    pub max_width: usize,
}

fn check_elide_one(case: &ElideCase, at_start: bool) -> Result<bool, Violation> {
    let ElideCase { text, ellipsis, max_width } = case;
    let (text, ellipsis, max_width) = (text.as_str(), ellipsis.as_str(), *max_width);
    let name = if at_start { "elide_start" } else { "elide_end" };
    let (out, ret) = if at_start {
        text_util::elide_start(text, ellipsis, max_width)
    } else {
        text_util::elide_end(text, ellipsis, max_width)
    };
    let out: &str = &out;
    // Never wider than requested ("The returned string (including `ellipsis`)
    // never exceeds the `max_width`").
    ensure!(
        w_min(out) <= max_width,
        "{name}({text:?}, {ellipsis:?}, {max_width}) = {out:?} has width {} (sum) / {} (str)",
        sum_w(out),
        str_w(out)
    );
    // The returned width is the measured one.
    ensure!(
        ret == sum_w(out) || ret == str_w(out),
        "{name}({text:?}, {ellipsis:?}, {max_width}) = {out:?} returned width {ret}, measured {} \
         (sum) / {} (str)",
        sum_w(out),
        str_w(out)
    );
    ensure!(ret <= max_width, "{name}: returned width {ret} > max_width {max_width}");
    // Text that already fits is left unchanged.
    if w_max(text) <= max_width {
        ensure_eq!(out, text, "{name}({text:?}, {ellipsis:?}, {max_width}) changed a text that fits");
    }
    // Shape: the text itself, or ellipsis + suffix / prefix + ellipsis, or a part
    // of the ellipsis alone. Slicing is by `str`, so no character is split.
    if out != text {
        let ok = if at_start {
            out.strip_prefix(ellipsis).is_some_and(|rest| text.ends_with(rest))
                || ellipsis.ends_with(out)
        } else {
            out.strip_suffix(ellipsis).is_some_and(|rest| text.starts_with(rest))
                || ellipsis.starts_with(out)
        };
        ensure!(
            ok,
            "{name}({text:?}, {ellipsis:?}, {max_width}) = {out:?} is neither the text, nor the \
             ellipsis joined with a part of the text, nor a part of the ellipsis"
        );
        ensure!(
            w_max(text) > max_width,
            "{name}({text:?}, {ellipsis:?}, {max_width}) = {out:?} shortened a text that fits"
        );
    }
    Ok(out != text)
}

fn check_elide(case: &ElideCase) -> CheckResult {
    let cut_start = check_elide_one(case, true)?;
    let cut_end = check_elide_one(case, false)?;
    let cut = cut_start || cut_end;
    Ok(Outcome::new(cut && has_special(&case.text))
        .class_if(cut, "elide:truncated")
        .class_if(!cut, "elide:fits")
        .class_if(metrics_differ(&case.text), "elide:text-metrics-differ")
        .class_if(w_min(&case.ellipsis) > case.max_width, "elide:ellipsis-wider-than-width")
        .class_if(sum_w(&case.text) == case.max_width, "elide:exact-fit"))
}

fn elide_cases() -> impl Strategy<Value = ElideCase> {
    (text(16), ellipsis(), width_sel()).prop_map(|(text, ellipsis, sel)| {
        let max_width = sel.resolve(&text);
        ElideCase { text, ellipsis, max_width }
    })
}

/// Small exhaustive space: every string of up to `max_len` characters over an
/// eight-character alphabet, every width 0..=6, four ellipses.
fn elide_small(max_len: usize) -> impl Iterator<Item = ElideCase> {
    const ALPHA: [char; 8] =
        ['a', '一', '\u{300}', '\u{200d}', '☺', '\u{fe0f}', '👍', '🏽'];
    const ELLIPSES: [&str; 4] = ["", ".", "略", "…\u{fe0f}-"];
    (0..=max_len).flat_map(move |len| {
        let total = 8usize.pow(len as u32);
        (0..total).flat_map(move |mut n| {
            let mut text = String::new();
            for _ in 0..len {
                text.push(ALPHA[n % 8]);
                n /= 8;
            }
            (0..=6usize).flat_map(move |max_width| {
                let text = text.clone();
                ELLIPSES.iter().map(move |e| ElideCase {
                    text: text.clone(),
                    ellipsis: e.to_string(),
                    max_width,
                })
            })
        })
    })
}

// ---------------------------------------------------------------------------
// write_truncated_start / write_truncated_end
// ---------------------------------------------------------------------------

#[derive(Debug, Clone, Serialize, Deserialize)]
pub struct TruncCase {
    /// Single-line content (precondition of the `write_truncated_*` family).
    pub content: Vec<Chunk>,
    pub ellipsis: Vec<Chunk>,
    pub max_width: usize,
}

/// Known finding: `write_truncated_start` strips leading zero-width characters
/// (combining marks, ZWSP/ZWJ/BOM, directional marks, and control characters,
/// whose char width is `None`) from the content even when the content fits and
/// nothing is truncated. `elide_start` and `write_truncated_end` leave such
/// text alone.
pub const SIG_TRIM: &str = "C44-truncated-start-trims-fitting-content";

/// Known finding: `write_truncated_*` reserves `str.width()` of the ellipsis
/// when it computes the budget for the content, but then lays the ellipsis out
/// by per-char widths (and cuts the content by per-char widths too). With an
/// ellipsis whose per-char sum exceeds its string width (ZWJ / modifier
/// sequence, ligature) and kept content whose string width exceeds its per-char
/// sum (emoji presentation sequence, control characters) the output is wider
/// than `max_width` under both metrics.
pub const SIG_MIXED: &str = "C44-truncated-mixed-width-metrics";

struct TruncResult {
    cut: bool,
    known: Option<(&'static str, String)>,
}

fn check_trunc_one(case: &TruncCase, at_start: bool) -> Result<TruncResult, Violation> {
    let name = if at_start { "write_truncated_start" } else { "write_truncated_end" };
    let max_width = case.max_width;
    let data = concat_chunks(&case.content);
    let ell = concat_chunks(&case.ellipsis);
    let (content, data_stacks) = record(&case.content);
    let (ellipsis, ell_stacks) = record(&case.ellipsis);
    let (spy, ret) = observe(|f| {
        if at_start {
            text_util::write_truncated_start(f, &content, &ellipsis, max_width)
        } else {
            text_util::write_truncated_end(f, &content, &ellipsis, max_width)
        }
    })?;
    let call = format!("{name}({data:?}, {ell:?}, {max_width})");
    // No character is split: valid UTF-8 in, valid UTF-8 out.
    let Ok(out) = std::str::from_utf8(&spy.out) else {
        return Err(Violation::new(format!("{call} wrote invalid UTF-8: {}", show(&spy.out))));
    };
    // Text that already fits is left unchanged.
    let mut known = None;
    let trimmed = data.trim_start_matches(|c: char| c.width().unwrap_or(0) == 0);
    if at_start
        && str_w(&data) <= max_width
        && out != data
        && out == trimmed
        && spy.stacks == data_stacks[data.len() - trimmed.len()..]
    {
        // Signature of the known finding: the content fits by the metric
        // `write_truncated_start` itself uses to decide (string width), nothing
        // is truncated, and exactly the leading zero-width characters are gone.
        known = Some((
            SIG_TRIM,
            format!(
                "{call} wrote {out:?}: leading zero-width characters of a content that fits were \
                 dropped"
            ),
        ));
    } else if w_max(&data) <= max_width {
        ensure_eq!(out, data, "{call} changed a content that fits");
        ensure_eq!(spy.stacks, data_stacks, "{call} changed the labels of a content that fits");
    }
    // Shape: a part of the ellipsis joined with a part of the content, each byte
    // keeping its labels.
    let mut shape_ok = false;
    if out == data && spy.stacks == data_stacks {
        shape_ok = true;
    } else {
        for split in 0..=out.len() {
            if !out.is_char_boundary(split) {
                continue;
            }
            let (a, b) = out.split_at(split);
            let (sa, sb) = spy.stacks.split_at(split);
            let ok = if at_start {
                // a: suffix of the ellipsis, b: suffix of the content
                ell.ends_with(a)
                    && data.ends_with(b)
                    && sa == &ell_stacks[ell.len() - a.len()..]
                    && sb == &data_stacks[data.len() - b.len()..]
            } else {
                // a: prefix of the content, b: prefix of the ellipsis
                data.starts_with(a)
                    && ell.starts_with(b)
                    && sa == &data_stacks[..a.len()]
                    && sb == &ell_stacks[..b.len()]
            };
            if ok {
                shape_ok = true;
                break;
            }
        }
    }
    ensure!(
        shape_ok,
        "{call} wrote {out:?} (labels {:?}): not a part of the content joined with a part of the \
         ellipsis with labels preserved",
        spy.stacks
    );
    // The returned width is the measured one (in the known-finding class the
    // width returned is that of the untrimmed content).
    let measured = if known.is_some() { data.as_str() } else { out };
    ensure!(
        ret == sum_w(measured) || ret == str_w(measured),
        "{call} wrote {out:?} and returned width {ret}, measured {} (sum) / {} (str)",
        sum_w(measured),
        str_w(measured)
    );
    // Never wider than requested.
    if w_min(out) > max_width {
        let msg = format!(
            "{call} wrote {out:?} of width {} (sum) / {} (str)",
            sum_w(out),
            str_w(out)
        );
        if known.is_none() && sum_w(&ell) > str_w(&ell) {
            known = Some((SIG_MIXED, msg));
        } else {
            return Err(Violation::new(msg));
        }
    }
    Ok(TruncResult { cut: out != data && known.is_none(), known })
}

fn check_trunc(case: &TruncCase) -> CheckResult {
    let data = concat_chunks(&case.content);
    let at_start = check_trunc_one(case, true)?;
    let at_end = check_trunc_one(case, false)?;
    if let Some((sig, msg)) = at_start.known.or(at_end.known) {
        return Err(Violation::known(sig, msg));
    }
    let cut = at_start.cut || at_end.cut;
    let labelled = case.content.iter().filter(|c| !c.text.is_empty()).count() >= 2;
    Ok(Outcome::new(cut && has_special(&data))
        .class_if(cut, "trunc:truncated")
        .class_if(!cut, "trunc:fits")
        .class_if(cut && labelled, "trunc:truncated-multi-chunk")
        .class_if(metrics_differ(&data), "trunc:content-metrics-differ")
        .class_if(
            metrics_differ(&concat_chunks(&case.ellipsis)),
            "trunc:ellipsis-metrics-differ",
        )
        .class_if(
            w_min(&concat_chunks(&case.ellipsis)) > case.max_width,
            "trunc:ellipsis-wider-than-width",
        ))
}

fn trunc_cases() -> impl Strategy<Value = TruncCase> {
    (chunks(false, 4, 5), ellipsis_chunks(), width_sel()).prop_map(|(content, ellipsis, sel)| {
        let max_width = sel.resolve(&concat_chunks(&content));
        TruncCase { content, ellipsis, max_width }
    })
}

// ---------------------------------------------------------------------------
// write_padded_start / write_padded_end / write_padded_centered
// ---------------------------------------------------------------------------

#[derive(Debug, Clone, Serialize, Deserialize)]
pub struct PadCase {
    /// Single-line content.
    pub content: Vec<Chunk>,
    /// A single character of width 1 (precondition), optionally labelled.
    pub fill: Chunk,
    pub min_width: usize,
}

const FILL: &[char] = &['=', ' ', '-', '.', 'é', '·', '─', '█', 'λ', 'a'];

fn check_pad(case: &PadCase) -> CheckResult {
    let min_width = case.min_width;
    let data = concat_chunks(&case.content);
    let fill = case.fill.text.as_str();
    let (content, data_stacks) = record(&case.content);
    let (fill_rec, fill_stacks) = record(std::slice::from_ref(&case.fill));
    let fill_stack = fill_stacks[0];
    let allowed_fill = [
        min_width.saturating_sub(sum_w(&data)),
        min_width.saturating_sub(str_w(&data)),
    ];
    let mut padded = false;
    for (name, mode) in [("write_padded_start", 0), ("write_padded_end", 1), ("write_padded_centered", 2)] {
        let (spy, ()) = observe(|f| match mode {
            0 => text_util::write_padded_start(f, &content, &fill_rec, min_width),
            1 => text_util::write_padded_end(f, &content, &fill_rec, min_width),
            _ => text_util::write_padded_centered(f, &content, &fill_rec, min_width),
        })?;
        let call = format!("{name}({data:?}, {fill:?}, {min_width})");
        let out = &spy.out;
        ensure!(
            out.len() >= data.len() && (out.len() - data.len()) % fill.len() == 0,
            "{call} wrote {}: not the content plus fill characters",
            show(out)
        );
        let n = (out.len() - data.len()) / fill.len();
        // Width exactly max(min_width, w(content)): the number of (1-column) fill
        // characters is min_width - w(content), or 0.
        ensure!(
            allowed_fill.contains(&n),
            "{call} wrote {} with {n} fill characters, expected {allowed_fill:?} (sum/str metric)",
            show(out)
        );
        let lefts: &[usize] = match mode {
            0 => &[n],
            1 => &[0],
            _ => &[n / 2, n - n / 2],
        };
        let ok = lefts.iter().any(|&left| {
            let right = n - left;
            let expected = [fill.repeat(left).as_bytes(), data.as_bytes(), fill.repeat(right).as_bytes()]
                .concat();
            let expected_stacks: Vec<u32> = std::iter::repeat_n(fill_stack, left * fill.len())
                .chain(data_stacks.iter().copied())
                .chain(std::iter::repeat_n(fill_stack, right * fill.len()))
                .collect();
            *out == expected && spy.stacks == expected_stacks
        });
        ensure!(
            ok,
            "{call} wrote {} (labels {:?}): content not intact or fill misplaced",
            show(out),
            spy.stacks
        );
        padded |= n > 0;
    }
    Ok(Outcome::new(padded && has_special(&data))
        .class_if(padded, "pad:padded")
        .class_if(!padded, "pad:wide-enough")
        .class_if(metrics_differ(&data), "pad:content-metrics-differ"))
}

fn pad_cases() -> impl Strategy<Value = PadCase> {
    (
        chunks(false, 3, 4),
        (0..FILL.len(), prop::collection::vec(0u8..3, 0..=1)),
        any::<u16>(),
        prop::bool::weighted(0.7),
    )
        .prop_map(|(content, (fill, labels), raw, relative)| {
            let data = concat_chunks(&content);
            let min_width = if relative {
                pick(raw, w_max(&data) + 8)
            } else {
                pick(raw, 41)
            };
            let fill = Chunk { labels, text: FILL[fill].to_string() };
            PadCase { content, fill, min_width }
        })
}

// ---------------------------------------------------------------------------
// wrap_bytes / write_wrapped
// ---------------------------------------------------------------------------

#[derive(Debug, Clone, Serialize, Deserialize)]
pub struct WrapCase {
    pub content: Vec<Chunk>,
    pub width: usize,
}

#[derive(Debug, Clone, Serialize, Deserialize)]
pub struct WrapRawCase {
    pub text: Bytes,
    pub width: usize,
}

/// Structure of the result of `wrap_bytes`: offsets of the lines in `text`.
/// Checks everything that does not depend on a width metric.
fn wrap_structure(text: &[u8], width: usize) -> Result<Vec<(usize, usize)>, Violation> {
    let lines = text_util::wrap_bytes(text, width);
    let call = format!("wrap_bytes({}, {width})", show(text));
    ensure!(!lines.is_empty(), "{call} returned no line");
    let base = text.as_ptr() as usize;
    let mut ranges = vec![];
    for line in &lines {
        let start = (line.as_ptr() as usize).wrapping_sub(base);
        ensure!(
            (line.as_ptr() as usize) >= base && start + line.len() <= text.len(),
            "{call}: line {} is not a sub-slice of the text",
            show(line)
        );
        ensure!(!line.contains(&b'\n'), "{call}: line {} contains a newline", show(line));
        ranges.push((start, start + line.len()));
    }
    // Lines are in order; what lies between them is spaces and at most one
    // newline (which is never removed, and only follows the spaces).
    let mut pos = 0;
    for (i, &(start, end)) in ranges.iter().enumerate() {
        ensure!(start >= pos, "{call}: line {i} at {start}..{end} overlaps its predecessor");
        let gap = &text[pos..start];
        let spaces = gap.iter().take_while(|&&b| b == b' ').count();
        let gap_ok = if i == 0 {
            spaces == gap.len()
        } else {
            (spaces == gap.len() && spaces >= 1)
                || (spaces + 1 == gap.len() && gap[spaces] == b'\n')
        };
        ensure!(
            gap_ok,
            "{call}: bytes {} dropped before line {i} ({start}..{end})",
            show(gap)
        );
        pos = end;
    }
    let tail = &text[pos..];
    ensure!(
        tail.iter().all(|&b| b == b' '),
        "{call}: bytes {} dropped after the last line",
        show(tail)
    );
    Ok(ranges)
}

fn check_wrap_raw(case: &WrapRawCase) -> CheckResult {
    let text = &case.text.0;
    let ranges = wrap_structure(text, case.width)?;
    let valid = std::str::from_utf8(text).is_ok();
    if valid {
        for &(s, e) in &ranges {
            ensure!(
                std::str::from_utf8(&text[s..e]).is_ok(),
                "wrap_bytes split a character: line {}",
                show(&text[s..e])
            );
        }
    }
    let newlines = text.iter().filter(|&&b| b == b'\n').count();
    Ok(Outcome::new(ranges.len() > newlines + 1)
        .class_if(!valid, "wrap-raw:invalid-utf8")
        .class_if(ranges.len() > newlines + 1, "wrap-raw:wrapped"))
}

fn check_wrap(case: &WrapCase) -> CheckResult {
    let width = case.width;
    let data = concat_chunks(&case.content);
    let bytes = data.as_bytes();
    let ranges = wrap_structure(bytes, width)?;
    let call = format!("wrap_bytes({data:?}, {width})");
    let mut wrapped = false;
    let mut overlong = false;
    // Per output line: no split character, not wider than the width unless it
    // is a single word.
    for &(s, e) in &ranges {
        let Ok(line) = std::str::from_utf8(&bytes[s..e]) else {
            return Err(Violation::new(format!(
                "{call} split a character: line {}",
                show(&bytes[s..e])
            )));
        };
        // textwrap skips ANSI escape sequences when measuring; lines with ESC
        // are exempt from the width bound.
        if line.contains(' ') && !line.contains('\u{1b}') {
            ensure!(
                w_min(line) <= width,
                "{call}: line {line:?} with a break opportunity has width {} (sum) / {} (str)",
                sum_w(line),
                str_w(line)
            );
        }
        overlong |= w_min(line) > width;
    }
    // Per source line: one that already fits is unchanged (up to trailing
    // spaces, which wrapping always drops).
    let mut line_start = 0;
    let mut k = 0;
    for src in bytes.split(|&b| b == b'\n') {
        let line_end = line_start + src.len();
        let first = k;
        while k < ranges.len() && ranges[k].0 >= line_start && ranges[k].1 <= line_end {
            // an empty slice at `line_end` belongs to this line, one at
            // `line_end + 1` to the next
            k += 1;
        }
        let outs = &ranges[first..k];
        ensure!(
            !outs.is_empty(),
            "{call}: source line at {line_start}..{line_end} produced no output line"
        );
        let src_str = std::str::from_utf8(src).unwrap();
        if w_max(src_str) <= width {
            let trimmed = src_str.trim_end_matches(' ');
            ensure!(
                outs.len() == 1 && outs[0] == (line_start, line_start + trimmed.len()),
                "{call}: source line {src_str:?} fits but was changed: {:?}",
                outs.iter().map(|&(s, e)| &data[s..e]).collect::<Vec<_>>()
            );
        }
        wrapped |= outs.len() > 1;
        line_start = line_end + 1;
    }
    ensure!(k == ranges.len(), "{call}: output lines not aligned with source lines");

    // write_wrapped: the same lines joined with "\n", every byte keeping its labels.
    let (content, data_stacks) = record(&case.content);
    let (spy, ()) = observe(|f| text_util::write_wrapped(f, &content, width))?;
    let mut expected = vec![];
    let mut expected_stacks: Vec<Option<u32>> = vec![];
    for (i, &(s, e)) in ranges.iter().enumerate() {
        if i > 0 {
            expected.push(b'\n');
            expected_stacks.push(None);
        }
        expected.extend_from_slice(&bytes[s..e]);
        expected_stacks.extend(data_stacks[s..e].iter().map(|&id| Some(id)));
    }
    ensure_eq!(
        bstr::BString::from(spy.out.clone()),
        bstr::BString::from(expected),
        "write_wrapped({data:?}, {width}) differs from wrap_bytes lines joined by newline"
    );
    for (i, want) in expected_stacks.iter().enumerate() {
        if let Some(want) = want {
            ensure!(
                spy.stacks[i] == *want,
                "write_wrapped({data:?}, {width}): output byte {i} written with label stack {} \
                 instead of {want}",
                spy.stacks[i]
            );
        }
    }
    let multi_chunk = case.content.iter().filter(|c| !c.text.is_empty()).count() >= 2;
    Ok(Outcome::new(wrapped && has_special(&data))
        .class_if(wrapped, "wrap:wrapped")
        .class_if(!wrapped, "wrap:fits")
        .class_if(overlong, "wrap:overlong-word")
        .class_if(wrapped && multi_chunk, "wrap:wrapped-multi-chunk")
        .class_if(data.contains('\n'), "wrap:multi-line")
        .class_if(metrics_differ(&data), "wrap:metrics-differ"))
}

fn wrap_cases() -> impl Strategy<Value = WrapCase> {
    (chunks(true, 4, 8), any::<u16>(), 0u8..10).prop_map(|(content, raw, mode)| {
        let data = concat_chunks(&content);
        let longest = data.split('\n').map(w_max).max().unwrap_or(0);
        let width = match mode {
            0..=5 => pick(raw, longest + 3),
            6..=7 => pick(raw, 12),
            _ => pick(raw, 41),
        };
        WrapCase { content, width }
    })
}

fn wrap_raw_cases() -> impl Strategy<Value = WrapRawCase> {
    let piece = prop_oneof![
        6 => atom_multiline().prop_map(|s| s.into_bytes()),
        1 => prop::collection::vec(any::<u8>(), 1..=3),
        1 => Just(vec![0x80u8]),
        1 => Just(vec![0xe4u8, 0xb8]), // truncated 一
        1 => Just(vec![0xf0u8, 0x9f, 0x91]), // truncated emoji
    ];
    (prop::collection::vec(piece, 0..=16), any::<u16>()).prop_map(|(pieces, raw)| WrapRawCase {
        text: Bytes(pieces.concat()),
        width: pick(raw, 24),
    })
}

// ---------------------------------------------------------------------------
// write_indented
// ---------------------------------------------------------------------------

#[derive(Debug, Clone, Serialize, Deserialize)]
pub struct IndentCase {
    pub content: Vec<Chunk>,
    pub prefix: String,
}

fn check_indent(case: &IndentCase) -> CheckResult {
    let data = concat_chunks(&case.content);
    let prefix = case.prefix.as_str();
    let (content, data_stacks) = record(&case.content);
    let (spy, ()) = observe(|f| {
        text_util::write_indented(f, &content, |f| f.write_all(prefix.as_bytes()))
    })?;
    // "Indents each line by the given prefix preserving labels": every line
    // except blank ones gets the prefix, nothing else changes.
    let mut expected = vec![];
    let mut expected_stacks: Vec<Option<u32>> = vec![];
    let mut pos = 0;
    let mut lines = 0;
    for line in data.split_inclusive('\n') {
        if line != "\n" {
            expected.extend_from_slice(prefix.as_bytes());
            expected_stacks.extend(std::iter::repeat_n(None, prefix.len()));
        }
        expected.extend_from_slice(line.as_bytes());
        expected_stacks.extend(data_stacks[pos..pos + line.len()].iter().map(|&id| Some(id)));
        pos += line.len();
        lines += 1;
    }
    ensure_eq!(
        bstr::BString::from(spy.out.clone()),
        bstr::BString::from(expected),
        "write_indented({data:?}, {prefix:?})"
    );
    for (i, want) in expected_stacks.iter().enumerate() {
        if let Some(want) = want {
            ensure!(
                spy.stacks[i] == *want,
                "write_indented({data:?}, {prefix:?}): output byte {i} written with label stack \
                 {} instead of {want}",
                spy.stacks[i]
            );
        }
    }
    let blank = data.split_inclusive('\n').any(|l| l == "\n");
    Ok(Outcome::new(lines >= 2 && !prefix.is_empty())
        .class_if(blank, "indent:blank-line")
        .class_if(lines >= 2, "indent:multi-line"))
}

fn indent_cases() -> impl Strategy<Value = IndentCase> {
    let prefix = prop_oneof![
        1 => Just(String::new()),
        2 => Just("  ".to_string()),
        1 => Just(">>".to_string()),
        1 => Just("│ ".to_string()),
        1 => text(2),
    ];
    (chunks(true, 4, 6), prefix).prop_map(|(content, prefix)| IndentCase { content, prefix })
}

// ---------------------------------------------------------------------------

pub fn run(report: &mut Report) {
    report.set_rule(
        "texts are concatenations of atoms: narrow/wide (CJK, emoji)/zero-width (combining, ZWJ, \
         variation selectors)/control characters, multi-char sequences on which per-char and \
         whole-string widths disagree (ZWJ, modifier and presentation sequences, ligatures, jamo), \
         any char; recorded content is 0-4 chunks in 0-2 labels; widths are 0..=40 or relative to \
         the text width (boundary cases frequent); ellipses empty/narrow/wide/longer than the \
         width; elide_* additionally exhaustive over strings of <=4 (thorough 5) chars from an \
         8-char alphabet x widths 0..=6 x 4 ellipses. Non-trivial = the text contains a character \
         whose width is not 1 and truncation/wrapping/padding actually happens (write_indented: \
         >=2 lines and a non-empty prefix); distinct by whole case",
    );
    report.assume(
        "unicode-width 0.2.2 (the crate jj itself uses) as the width oracle: w_min=min(sum of \
         char widths, str width) for 'not wider', w_max=max(..) for 'already fits'",
    );
    report.assume(
        "wrap_bytes measures words with textwrap::core::display_width, which skips ANSI escape \
         sequences; output lines containing ESC are exempt from the width bound",
    );
    report.assume(
        "preconditions from the doc comments: single-line content for write_truncated_*/ \
         write_padded_*, fill is one character of width 1; label boundaries at character boundaries",
    );
    let tier = report.tier;
    let max_len = tier.pick_usize(4, 5);
    report.enumerate("elide_small", true, elide_small(max_len), check_elide);
    report.prop("elide", tier.pick(400_000, 20_000_000), elide_cases, check_elide);
    report.prop("truncated", tier.pick(300_000, 15_000_000), trunc_cases, check_trunc);
    report.prop("padded", tier.pick(150_000, 5_000_000), pad_cases, check_pad);
    report.prop("wrapped", tier.pick(300_000, 15_000_000), wrap_cases, check_wrap);
    report.prop("wrap_raw", tier.pick(100_000, 5_000_000), wrap_raw_cases, check_wrap_raw);
    report.prop("indented", tier.pick(100_000, 5_000_000), indent_cases, check_indent);
}
