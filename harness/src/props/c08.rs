//! C08 Rebasing carries a commit's changes and nothing else.
//!
//! Model DAG with model trees written into a `TestRepo`; one commit `C` is
//! rebased with `CommitRewriter::rebase()` onto a generated parent set. With
//! `OB`/`NB` = jj's merged old/new parent trees and `R` the rebased tree
//! (DESIGN §5 C08):
//!
//! 1. every path not related to `diff(OB, C)` has `R(p) ≃ NB(p)`;
//! 2. every path not related to `diff(OB, NB)` has `R(p) ≃ C(p)`;
//! 3. rebasing onto the current parents (or onto commits with the same trees
//!    and the same ancestry) leaves the tree ids unchanged;
//! 4. if the two diffs are unrelated and `OB`, `NB`, `C` are conflict-free,
//!    rebasing the result back onto the old parents restores `C`'s tree id.
//!
//! A path is *related* to a diff if some changed path equals it, contains it or
//! is contained in it; `≃` is equality for resolved values and equality of
//! denotation (signed multiset of terms) for conflicted ones.

use std::collections::BTreeSet;

use jj_lib::backend::MergedTreeValue;
use jj_lib::commit::Commit;
use jj_lib::merged_tree::MergedTree;
use jj_lib::repo::Repo as _;
use jj_lib::rewrite::CommitRewriter;
use jj_lib::merge::Merge;
use jj_lib::repo::MutableRepo;
use jj_lib::rewrite::merge_commit_trees;
use jj_lib::rewrite::merge_commit_trees_no_resolve;
use pollster::FutureExt as _;
use proptest::prelude::*;
use serde::Deserialize;
use serde::Serialize;
use testutils::TestRepo;

use crate::engine::runner::CheckResult;
use crate::engine::runner::Outcome;
use crate::engine::runner::Report;
use crate::engine::runner::Violation;
use crate::engine::runner::pick;
use crate::ensure;
use crate::ensure_eq;
use crate::model::dag::BuildOpts;
use crate::model::dag::Dag;
use crate::model::dag::DagSpec;
use crate::model::dag::dag_spec;
use crate::model::dag::write_nodes;
use crate::model::tree::ModelTree;
use crate::model::tree::read_resolved_tree;
use crate::model::tree::repo_path;
use crate::model::tree::write_tree;
use crate::model::tree_ops::Edit;
use crate::model::tree_ops::apply_all;
use crate::model::tree_ops::brief_terms;
use crate::model::tree_ops::edit;
use crate::model::tree_ops::paths_related;
use crate::model::tree_ops::rich_tree;
use crate::model::tree_ops::terms_of_merge;
use crate::model::tree_ops::universe;
use crate::props::c01::denote;
use crate::props::c07::is_idempotency_panic;
use crate::props::c07::settings;
use crate::props::c07::unstable_by_reference;

#[derive(Debug, Clone, Serialize, Deserialize)]
pub struct NodeTree {
    /// For a node with >= 2 parents: start from the automatic merge of the
    /// parents' trees; if that merge is conflicted the node keeps the conflicted
    /// tree as it is (a conflicted commit), else `edits` are applied to it.
    /// Otherwise (and for single-parent nodes) `edits` are applied to the first
    /// parent's model tree, which gives a conflict-free tree.
    pub auto: bool,
    pub edits: Vec<Edit>,
}

#[derive(Debug, Clone, Serialize, Deserialize)]
pub enum Dest {
    /// 1..3 commits that are not descendants of the rebased commit.
    Pick(Vec<u16>),
    /// The current parents.
    SameParents,
    /// Fresh empty commits on top of each current parent (same trees, same
    /// ancestry).
    EmptyChildren,
    /// The current first parent followed by 1..2 picked commits.
    KeepFirst(Vec<u16>),
}

#[derive(Debug, Clone, Serialize, Deserialize)]
pub struct Case {
    pub keep: bool,
    pub dag: DagSpec,
    /// Model tree that children of the root start from.
    pub base: ModelTree,
    /// One per DAG node.
    pub trees: Vec<NodeTree>,
    pub target: u16,
    pub dest: Dest,
}

fn case_strategy() -> impl Strategy<Value = Case> {
    let node_tree = (
        prop::bool::weighted(0.65),
        prop_oneof![
            1 => Just(vec![]),
            8 => prop::collection::vec(edit(), 1..=3),
        ],
    )
        .prop_map(|(auto, edits)| NodeTree { auto, edits });
    let dest = prop_oneof![
        5 => prop::collection::vec(any::<u16>(), 1).prop_map(Dest::Pick),
        4 => prop::collection::vec(any::<u16>(), 2..=3).prop_map(Dest::Pick),
        1 => Just(Dest::SameParents),
        1 => Just(Dest::EmptyChildren),
        2 => prop::collection::vec(any::<u16>(), 1..=2).prop_map(Dest::KeepFirst),
    ];
    (
        prop::bool::weighted(0.2),
        dag_spec(3usize..=12, 3, 30),
        rich_tree(6),
        any::<u16>(),
        dest,
    )
        .prop_flat_map(move |(keep, dag, base, target, dest)| {
            let n = dag.nodes.len();
            (
                Just((keep, dag, base, target, dest)),
                prop::collection::vec(node_tree.clone(), n),
            )
        })
        .prop_map(|((keep, dag, base, target, dest), trees)| Case {
            keep,
            dag,
            base,
            trees,
            target,
            dest,
        })
}

fn err<E: std::fmt::Display>(what: &'static str) -> impl Fn(E) -> Violation {
    move |e| Violation::new(format!("{what}: {e}"))
}

fn value(tree: &MergedTree, path: &str) -> Result<MergedTreeValue, Violation> {
    tree.path_value(&repo_path(path))
        .block_on()
        .map_err(err("path_value"))
}

/// Directory-like: absent, a tree, or a conflict among trees/absent. jj merges
/// such values by recursion, so they are never themselves a "changed path".
fn dirlike(v: &MergedTreeValue) -> bool {
    v.is_absent() || v.is_tree()
}

/// Changed paths between two trees over the universe: values differ and are
/// not both directory-like (then the difference is reported below them).
fn diff_paths(a: &[MergedTreeValue], b: &[MergedTreeValue], paths: &[String]) -> Vec<String> {
    paths
        .iter()
        .enumerate()
        .filter(|(i, _)| a[*i] != b[*i] && !(dirlike(&a[*i]) && dirlike(&b[*i])))
        .map(|(_, p)| p.clone())
        .collect()
}

fn related(path: &str, diff: &[String]) -> bool {
    diff.iter().any(|d| paths_related(d, path))
}

enum Equiv {
    Equal,
    /// Both conflicted among directories: compared through the paths below.
    SkippedDirConflict,
}

/// `a ≃ b` at `path`.
fn equiv(
    what: &str,
    store: &std::sync::Arc<jj_lib::store::Store>,
    path: &str,
    a: &MergedTreeValue,
    b: &MergedTreeValue,
) -> Result<Equiv, Violation> {
    let rp = repo_path(path);
    match (a.is_resolved(), b.is_resolved()) {
        (true, true) => {
            ensure!(a == b, "{what}: at {path}: {a:?} != {b:?}");
            Ok(Equiv::Equal)
        }
        (false, false) => {
            if a.is_tree() && b.is_tree() {
                return Ok(Equiv::SkippedDirConflict);
            }
            let ta = terms_of_merge(store, &rp, a).map_err(Violation::new)?;
            let tb = terms_of_merge(store, &rp, b).map_err(Violation::new)?;
            ensure!(
                denote(&ta) == denote(&tb),
                "{what}: conflicts at {path} differ in meaning: {} vs {}",
                brief_terms(&ta),
                brief_terms(&tb)
            );
            Ok(Equiv::Equal)
        }
        _ => {
            let ta = terms_of_merge(store, &rp, a).map_err(Violation::new)?;
            let tb = terms_of_merge(store, &rp, b).map_err(Violation::new)?;
            Err(Violation::new(format!(
                "{what}: at {path} one side is resolved and the other conflicted: {} vs {}",
                brief_terms(&ta),
                brief_terms(&tb)
            )))
        }
    }
}

/// Signature of the known finding shared with C07: the re-merge idempotency
/// `debug_assert_eq!` in `MergedTree::resolve` fires during a merge of parent
/// trees or during the rebase's 3-way merge.
pub const SIG_NOT_IDEMPOTENT: &str = "C08-merge-not-idempotent-after-simplify";

/// Classifies a panic raised by a tree merge inside jj: the known finding if it
/// is the idempotency assertion *and* the C07 reference predicts it for the
/// same (unresolved) input, otherwise a violation.
fn classify_merge_panic(what: &str, msg: String, unresolved: Result<MergedTree, String>) -> Violation {
    if is_idempotency_panic(&msg)
        && let Ok(tree) = unresolved
        && unstable_by_reference(&tree) == Ok(true)
    {
        return Violation::known(SIG_NOT_IDEMPOTENT, format!("{what}: {msg}"));
    }
    Violation::new(format!("{what}: {msg}"))
}

/// `merge_commit_trees` with the idempotency panic classified.
fn merged_parents(what: &str, repo: &MutableRepo, commits: &[Commit]) -> Result<MergedTree, Violation> {
    crate::engine::runner::catch(|| {
        merge_commit_trees(repo, commits)
            .block_on()
            .map_err(|e| Violation::new(format!("{what}: {e}")))
    })
    .map_err(|v| {
        if !v.msg.starts_with("panic: ") {
            return v;
        }
        let unresolved = merge_commit_trees_no_resolve(repo, commits)
            .block_on()
            .map_err(|e| e.to_string());
        classify_merge_panic(what, v.msg, unresolved)
    })
}

/// `CommitRewriter::rebase().write()` with the idempotency panic classified.
/// `nb`/`ob` are the already computed merged new/old parent trees, so a panic
/// can only come from the rebase's own 3-way merge `[nb, ob, commit tree]`.
fn rebase_guarded(
    what: &str,
    repo: &mut MutableRepo,
    commit: &Commit,
    new_parent_ids: Vec<jj_lib::backend::CommitId>,
    nb: &MergedTree,
    ob: &MergedTree,
) -> Result<Commit, Violation> {
    crate::engine::runner::catch(|| {
        CommitRewriter::new(repo, commit.clone(), new_parent_ids)
            .rebase()
            .block_on()
            .map_err(|e| Violation::new(format!("{what}: {e}")))?
            .write()
            .block_on()
            .map_err(|e| Violation::new(format!("{what}: write: {e}")))
    })
    .map_err(|v| {
        if !v.msg.starts_with("panic: ") {
            return v;
        }
        let unresolved = MergedTree::merge_no_resolve(Merge::from_vec(vec![
            (nb.clone(), "nb".to_string()),
            (ob.clone(), "ob".to_string()),
            (commit.tree(), "c".to_string()),
        ]));
        classify_merge_panic(what, v.msg, Ok(unresolved))
    })
}

thread_local! {
    /// One repo per worker thread and same-change setting. Every case works in
    /// its own transaction, which is dropped without being committed, so the
    /// repo (view, index) a case starts from is always the freshly initialised
    /// one; only the content-addressed in-memory object store is shared.
    static REPOS: std::cell::RefCell<[Option<TestRepo>; 2]> = const { std::cell::RefCell::new([None, None]) };
}

fn check(case: &Case) -> CheckResult {
    let repo = REPOS.with(|r| {
        let mut r = r.borrow_mut();
        let slot = &mut r[usize::from(case.keep)];
        if slot.is_none() {
            *slot = Some(TestRepo::init_with_settings(&settings(case.keep)));
        }
        slot.as_ref().unwrap().repo.clone()
    });
    check_in(case, &repo)
}

fn check_in(case: &Case, repo: &std::sync::Arc<jj_lib::repo::ReadonlyRepo>) -> CheckResult {
    let store = repo.store().clone();
    let dag = Dag::from_spec(&case.dag);
    let n = dag.len();
    let mut tx = repo.start_transaction();

    // Write the DAG, one node at a time.
    let mut commits: Vec<Commit> = vec![];
    // Model tree that children derive from (root: the case's base tree).
    let mut model_of: Vec<ModelTree> = vec![case.base.clone()];
    for i in 1..n {
        let first_parent = dag.parents[i][0];
        let spec = &case.trees[i - 1];
        let mut start = model_of[first_parent].clone();
        let mut conflicted_merge = false;
        if spec.auto && dag.parents[i].len() >= 2 {
            let parents: Vec<Commit> = dag.parents[i].iter().map(|p| commits[*p].clone()).collect();
            let merged = merged_parents("merge parents of a DAG node", tx.repo(), &parents)?;
            if merged.has_conflict() {
                conflicted_merge = true;
            } else {
                start = read_resolved_tree(&merged).map_err(Violation::new)?;
            }
        }
        if conflicted_merge {
            // tree_of = None: the (conflicted) automatic merge.
            write_nodes(tx.repo_mut(), &dag, i..i + 1, &mut commits, &BuildOpts::default());
            model_of.push(start);
        } else {
            let model = apply_all(&start, &spec.edits);
            let tree = write_tree(&store, &model);
            let tree_of = |_: usize| tree.clone();
            write_nodes(
                tx.repo_mut(),
                &dag,
                i..i + 1,
                &mut commits,
                &BuildOpts {
                    tree_of: Some(&tree_of),
                    ..Default::default()
                },
            );
            model_of.push(model);
        }
    }

    let t = 1 + pick(case.target, n - 1);
    let c = commits[t].clone();
    let old_parents: Vec<Commit> = dag.parents[t].iter().map(|p| commits[*p].clone()).collect();
    let descendants = dag.descendants([t]);
    let allowed: Vec<usize> = (0..n).filter(|i| !descendants.contains(i)).collect();
    let normalize = |mut idx: Vec<usize>| -> Vec<usize> {
        let mut seen = BTreeSet::new();
        idx.retain(|i| seen.insert(*i));
        if idx.len() > 1 {
            // The root can only be a sole parent.
            idx.retain(|i| *i != 0);
        }
        idx
    };
    let mut same_parents = false;
    let mut empty_children = false;
    let mut keep_first = false;
    let new_parents: Vec<Commit> = match &case.dest {
        Dest::Pick(raws) => {
            let idx = normalize(raws.iter().map(|r| allowed[pick(*r, allowed.len())]).collect());
            idx.iter().map(|i| commits[*i].clone()).collect()
        }
        Dest::SameParents => {
            same_parents = true;
            old_parents.clone()
        }
        Dest::EmptyChildren => {
            empty_children = true;
            let mut out = vec![];
            for (k, p) in old_parents.iter().enumerate() {
                let child = tx
                    .repo_mut()
                    .new_commit(vec![p.id().clone()], p.tree())
                    .set_description(format!("empty child {k}"))
                    .write()
                    .block_on()
                    .map_err(err("write empty child"))?;
                out.push(child);
            }
            out
        }
        Dest::KeepFirst(raws) => {
            keep_first = true;
            let mut idx = vec![dag.parents[t][0]];
            idx.extend(raws.iter().map(|r| allowed[pick(*r, allowed.len())]));
            let idx = normalize(idx);
            idx.iter().map(|i| commits[*i].clone()).collect()
        }
    };
    let same_parents = same_parents
        || new_parents.iter().map(|p| p.id()).eq(old_parents.iter().map(|p| p.id()));
    let new_parent_ids: Vec<_> = new_parents.iter().map(|p| p.id().clone()).collect();

    let ob = merged_parents("merge old parents", tx.repo(), &old_parents)?;
    let nb = merged_parents("merge new parents", tx.repo(), &new_parents)?;
    let rebased = rebase_guarded("rebase", tx.repo_mut(), &c, new_parent_ids.clone(), &nb, &ob)?;
    ensure_eq!(
        rebased.parent_ids(),
        new_parent_ids.as_slice(),
        "rebased commit's parents"
    );
    let ct = c.tree();
    let rt = rebased.tree();
    if std::env::var_os("JJVERIF_C08_DEBUG").is_some() {
        eprintln!("C08 debug: old_parents={:?}\n new_parents={:?}\n OB={:?}\n NB={:?}\n C ={:?}\n R ={:?}",
            old_parents.iter().map(|p| p.description().trim().to_string()).collect::<Vec<_>>(),
            new_parents.iter().map(|p| p.description().trim().to_string()).collect::<Vec<_>>(),
            ob.tree_ids(), nb.tree_ids(), ct.tree_ids(), rt.tree_ids());
        eprintln!("OB:\n{}NB:\n{}C:\n{}R:\n{}", testutils::dump_tree(&ob), testutils::dump_tree(&nb), testutils::dump_tree(&ct), testutils::dump_tree(&rt));
    }

    // Known finding: `rebase` keeps the old tree whenever the lists of the old and new parents'
    // trees are equal ("Optimization: Skip merging"), although the *merge* of the parents can
    // differ when only the merge base changed (same trees, different ancestry). Recognised
    // when that shortcut applies and the result differs from the general formula
    // merge(new base, old base, old tree).
    let old_parent_tree_ids: Vec<_> = old_parents.iter().map(|p| p.tree_ids().clone()).collect();
    let new_parent_tree_ids: Vec<_> = new_parents.iter().map(|p| p.tree_ids().clone()).collect();
    if old_parent_tree_ids == new_parent_tree_ids && ob.tree_ids() != nb.tree_ids() {
        let general = MergedTree::merge(Merge::from_vec(vec![
            (nb.clone(), "new base".to_string()),
            (ob.clone(), "old base".to_string()),
            (ct.clone(), "commit".to_string()),
        ]))
        .block_on()
        .map_err(|e| Violation::new(format!("general rebase formula failed: {e}")))?;
        if general.tree_ids() != rt.tree_ids() {
            return Err(Violation::known(
                "C08-equal-parent-trees-shortcut-ignores-changed-merge-base",
                format!(
                    "rebase onto parents with identical trees but a different merge base kept the old tree \
                     {:?}; merge(new base, old base, old tree) = {:?} (old base {:?}, new base {:?})",
                    rt.tree_ids(),
                    general.tree_ids(),
                    ob.tree_ids(),
                    nb.tree_ids()
                ),
            ));
        }
    }

    let paths = universe();
    let mut v_ob = vec![];
    let mut v_nb = vec![];
    let mut v_c = vec![];
    let mut v_r = vec![];
    for p in &paths {
        v_ob.push(value(&ob, p)?);
        v_nb.push(value(&nb, p)?);
        v_c.push(value(&ct, p)?);
        v_r.push(value(&rt, p)?);
    }
    let d1 = diff_paths(&v_ob, &v_c, &paths);
    let d2 = diff_paths(&v_ob, &v_nb, &paths);

    let mut checked1 = 0u32;
    let mut checked2 = 0u32;
    let mut moved1 = 0u32; // law-1 paths where the parents really differ
    let mut kept2 = 0u32; // law-2 paths where the commit really changed something
    let mut conflicted_values = 0u32;
    let mut dir_conflicts_skipped = 0u32;
    // Context for failure messages: the four values at a path and its ancestors.
    let context = |p: &str| -> String {
        let mut out = format!(" | diff(OB,C)={d1:?} diff(OB,NB)={d2:?}");
        let mut chain: Vec<&str> = crate::model::tree_ops::ancestors(p);
        chain.push(p);
        for q in chain {
            let i = paths.iter().position(|x| x == q).unwrap();
            let show = |v: &MergedTreeValue| {
                terms_of_merge(&store, &repo_path(q), v)
                    .map(|t| brief_terms(&t))
                    .unwrap_or_else(|e| e)
            };
            out.push_str(&format!(
                " | {q}: OB={} NB={} C={} R={}",
                show(&v_ob[i]),
                show(&v_nb[i]),
                show(&v_c[i]),
                show(&v_r[i])
            ));
        }
        out
    };
    let with_context = |r: Result<Equiv, Violation>, p: &str| {
        r.map_err(|v| Violation::new(format!("{}{}", v.msg, context(p))))
    };
    // A path below a conflict that involves a non-directory is reported absent
    // by path_value whatever the sides contain; such a conflict is compared as a
    // whole (directory terms by content) at its own path, not below it.
    let below_clash = |vals: &[MergedTreeValue], p: &str| -> bool {
        crate::model::tree_ops::ancestors(p).iter().any(|q| {
            let v = &vals[paths.iter().position(|x| x == q).unwrap()];
            !v.is_resolved() && !v.is_tree()
        })
    };
    let mut below_clash_skipped = 0u32;
    for (i, p) in paths.iter().enumerate() {
        if below_clash(&v_r, p) || below_clash(&v_nb, p) || below_clash(&v_c, p) {
            below_clash_skipped += 1;
            continue;
        }
        if !related(p, &d1) {
            match with_context(equiv("(1) path not touched by the commit: rebased vs new parents", &store, p, &v_r[i], &v_nb[i]), p)? {
                Equiv::Equal => {
                    checked1 += 1;
                    if v_nb[i] != v_ob[i] {
                        moved1 += 1;
                    }
                    if !v_r[i].is_resolved() {
                        conflicted_values += 1;
                    }
                }
                Equiv::SkippedDirConflict => dir_conflicts_skipped += 1,
            }
        }
        if !related(p, &d2) {
            match with_context(equiv("(2) path the parents agree on: rebased vs commit", &store, p, &v_r[i], &v_c[i]), p)? {
                Equiv::Equal => {
                    checked2 += 1;
                    if v_c[i] != v_ob[i] {
                        kept2 += 1;
                    }
                    if !v_r[i].is_resolved() {
                        conflicted_values += 1;
                    }
                }
                Equiv::SkippedDirConflict => dir_conflicts_skipped += 1,
            }
        }
    }

    // (3) same parents (or same trees and ancestry) => same tree ids.
    if same_parents || empty_children {
        ensure_eq!(
            rt.tree_ids(),
            ct.tree_ids(),
            "(3) rebasing onto {} changed the tree",
            if same_parents { "the current parents" } else { "empty children of the current parents" }
        );
    }

    // (4) round trip.
    let unrelated = !d1.iter().any(|a| d2.iter().any(|b| paths_related(a, b)));
    let conflict_free = !ob.has_conflict() && !nb.has_conflict() && !ct.has_conflict();
    let mut roundtrip = false;
    if unrelated && conflict_free {
        roundtrip = true;
        let old_parent_ids: Vec<_> = old_parents.iter().map(|p| p.id().clone()).collect();
        let back = rebase_guarded("rebase back", tx.repo_mut(), &rebased, old_parent_ids, &ob, &nb)?;
        let back_tree = back.tree();
        ensure_eq!(
            back_tree.tree_ids(),
            ct.tree_ids(),
            "(4) rebasing away (changes {d1:?} vs parent changes {d2:?}) and back did not restore the tree"
        );
    }

    let conflicted_parent = ob.has_conflict() || nb.has_conflict();
    let nontrivial = (!d1.is_empty() && !d2.is_empty()) || new_parents.len() >= 2 || conflicted_parent;
    let file_dir = |d: &[String]| d.iter().any(|a| d.iter().any(|b| a != b && paths_related(a, b)));
    Ok(Outcome::new(nontrivial)
        .class_if(!d1.is_empty() && !d2.is_empty(), "both-diffs-nonempty")
        .class_if(d1.is_empty(), "commit-empty")
        .class_if(new_parents.len() >= 2, "dest-multi-parent")
        .class_if(new_parents.len() >= 3, "dest-3-parents")
        .class_if(old_parents.len() >= 2, "source-is-merge")
        .class_if(ob.has_conflict(), "old-parents-conflict")
        .class_if(nb.has_conflict(), "new-parents-conflict")
        .class_if(ct.has_conflict(), "commit-conflicted")
        .class_if(rt.has_conflict(), "result-conflicted")
        .class_if(new_parents.len() == 1 && new_parents[0].id() == store.root_commit_id(), "dest-root")
        .class_if(same_parents, "same-parents")
        .class_if(empty_children, "empty-children")
        .class_if(keep_first && !same_parents, "first-parent-kept")
        .class_if(roundtrip && !d1.is_empty() && !d2.is_empty(), "roundtrip-nonempty")
        .class_if(roundtrip, "roundtrip")
        .class_if(!unrelated, "diffs-related")
        .class_if(file_dir(&d1) || file_dir(&d2), "file-dir-change")
        .class_if(moved1 > 0, "law1-on-moved-path")
        .class_if(kept2 > 0, "law2-on-changed-path")
        .class_if(conflicted_values > 0, "compared-conflicted-value")
        .class_if(dir_conflicts_skipped > 0, "dir-conflict-skipped")
        .class_if(below_clash_skipped > 0, "paths-below-clash-skipped")
        .class_if(checked1 == 0 || checked2 == 0, "a-law-vacuous")
        .class_if(case.keep, "same-change=keep"))
}

pub fn run(report: &mut Report) {
    report.set_rule(
        "model DAG of 2..10 commits (<=3 parents) whose trees are random tree/line edits of the \
         first parent's model tree or the automatic (possibly conflicted) merge of the parents; a \
         random commit is rebased onto 1..3 random non-descendants (root, ancestors, siblings, \
         merges), onto its current parents, onto empty children of them, or onto its first parent \
         plus others; same-change accept (80%) or keep; non-trivial = both diff(OB,C) and \
         diff(OB,NB) non-empty, or >=2 new parents, or a conflicted merged parent tree; distinct by case",
    );
    report.assume(
        "OB/NB are jj's own merge_commit_trees of the old/new parents (C07 covers tree merging); \
         diffs are computed by the harness from path_value over the whole path alphabet; \
         conflicts among directories are compared through the paths below them",
    );
    let tier = report.tier;
    report.prop("rebase", tier.pick(3_000, 100_000), case_strategy, check);
}
