//! C40 Working-copy changes are never lost by commands.
//!
//! Engine `cli`: generated histories of file edits and real `jj` commands in one
//! or two workspaces; a recorder captures the workspace's disk state right
//! before each command and requires that, if the command changed the disk, some
//! stored operation's working-copy commit for that workspace holds that state.

use std::collections::BTreeSet;
use std::path::Path;
use std::path::PathBuf;

use pollster::FutureExt as _;
use proptest::prelude::*;
use serde::Deserialize;
use serde::Serialize;

use crate::engine::cli::CliEnv;
use crate::engine::cli::DiskEntry;
use crate::engine::cli::DiskState;
use crate::engine::cli::loader_for;
use crate::engine::cli::read_disk;
use crate::engine::clihist::Edit;
use crate::engine::clihist::all_op_ids;
use crate::engine::clihist::apply_edit;
use crate::engine::clihist::commit_tree_state;
use crate::engine::clihist::edit;
use crate::engine::clihist::rev;
use crate::engine::clihist::wc_commits_of_all_ops;
use crate::engine::runner::CheckResult;
use crate::engine::runner::Outcome;
use crate::engine::runner::Report;
use crate::engine::runner::Violation;
use crate::engine::runner::pick;

#[derive(Debug, Clone, Serialize, Deserialize)]
pub enum Cmd {
    New,
    NewRev(u16),
    EditRev(u16),
    Describe(u16),
    Commit,
    Squash,
    SquashInto(u16),
    Split(u16),
    Abandon(u16),
    Rebase(u16, u16),
    Restore,
    RestoreFrom(u16),
    Undo,
    Redo,
    OpRestore(u16),
    AtOpLog(u16),
    AtOpMutate(u16),
    /// `jj --at-op <op> new`: moves this workspace's @ on a sibling operation.
    AtOpNew(u16),
    /// `jj --at-op <parent of the head operation> new @--`.
    AtOpPrevNew,
    /// `jj --at-op <op> describe <rev>`.
    AtOpDescribeRev(u16, u16),
    IgnoreWcNew,
    IgnoreWcDescribe,
    WorkspaceAdd,
    UpdateStale,
    WorkspaceForgetOther,
    Status,
    BookmarkSet(u16),
    // Commands below are used by C42 (and C40's generator at low weight).
    Metaedit(u16),
    Parallelize(u16),
    SimplifyParents(u16),
    Duplicate(u16),
    Absorb,
    RebaseSource(u16, u16),
    RebaseBranch(u16, u16),
    SquashFromInto(u16, u16),
    TagSet(u16),
    AbandonDescendants(u16),
}

#[derive(Debug, Clone, Serialize, Deserialize)]
pub enum Step {
    Edit { ws: u8, edit: Edit },
    Cmd { ws: u8, cmd: Cmd },
    /// Composite: make workspace `ws` stale (its working-copy commit is moved or rewritten
    /// behind its back), edit files there, then recover with `workspace update-stale`.
    StaleThenRecover { ws: u8, how: u8, edits: Vec<Edit> },
}

#[derive(Debug, Clone, Serialize, Deserialize)]
pub struct Case {
    pub steps: Vec<Step>,
}

pub fn cmd_strategy() -> impl Strategy<Value = Cmd> {
    prop_oneof![
        3 => Just(Cmd::New),
        3 => any::<u16>().prop_map(Cmd::NewRev),
        3 => any::<u16>().prop_map(Cmd::EditRev),
        2 => any::<u16>().prop_map(Cmd::Describe),
        3 => Just(Cmd::Commit),
        2 => Just(Cmd::Squash),
        1 => any::<u16>().prop_map(Cmd::SquashInto),
        2 => any::<u16>().prop_map(Cmd::Split),
        2 => any::<u16>().prop_map(Cmd::Abandon),
        2 => (any::<u16>(), any::<u16>()).prop_map(|(a, b)| Cmd::Rebase(a, b)),
        1 => Just(Cmd::Restore),
        2 => any::<u16>().prop_map(Cmd::RestoreFrom),
        3 => Just(Cmd::Undo),
        1 => Just(Cmd::Redo),
        2 => any::<u16>().prop_map(Cmd::OpRestore),
        1 => any::<u16>().prop_map(Cmd::AtOpLog),
        1 => any::<u16>().prop_map(Cmd::AtOpMutate),
        1 => any::<u16>().prop_map(Cmd::AtOpNew),
        1 => (any::<u16>(), any::<u16>()).prop_map(|(o, r)| Cmd::AtOpDescribeRev(o, r)),
        1 => Just(Cmd::IgnoreWcNew),
        1 => Just(Cmd::IgnoreWcDescribe),
        2 => Just(Cmd::WorkspaceAdd),
        2 => Just(Cmd::UpdateStale),
        1 => Just(Cmd::WorkspaceForgetOther),
        1 => Just(Cmd::Status),
        1 => any::<u16>().prop_map(Cmd::BookmarkSet),
        1 => any::<u16>().prop_map(Cmd::Metaedit),
        1 => any::<u16>().prop_map(Cmd::Parallelize),
        1 => any::<u16>().prop_map(Cmd::Duplicate),
        1 => Just(Cmd::Absorb),
        1 => (any::<u16>(), any::<u16>()).prop_map(|(a, b)| Cmd::RebaseSource(a, b)),
        1 => (any::<u16>(), any::<u16>()).prop_map(|(a, b)| Cmd::SquashFromInto(a, b)),
    ]
}

fn step_strategy() -> impl Strategy<Value = Step> {
    prop_oneof![
        10 => (0u8..2, edit()).prop_map(|(ws, edit)| Step::Edit { ws, edit }),
        8 => (0u8..2, cmd_strategy()).prop_map(|(ws, cmd)| Step::Cmd { ws, cmd }),
        1 => (0u8..2, 0u8..6, prop::collection::vec(edit(), 1..3))
            .prop_map(|(ws, how, edits)| Step::StaleThenRecover { ws, how, edits }),
    ]
}

pub struct World {
    pub env: CliEnv,
    pub work: PathBuf,
    pub ws_dirs: Vec<PathBuf>,
    pub ws_names: Vec<&'static str>,
    pub repo_dir: PathBuf,
    pub known_ops: Vec<String>,
}

impl World {
    pub fn new(prefix: &str) -> Result<Self, Violation> {
        let env = CliEnv::new(prefix);
        let work = env.root.join("work");
        std::fs::create_dir(&work).unwrap();
        let init = env.jj(&work, &["git", "init", "ws"]);
        if !init.success() {
            return Err(Violation::new(format!("jj git init failed: {}", init.brief())));
        }
        let ws = work.join("ws");
        let repo_dir = ws.join(".jj").join("repo");
        let mut world = Self {
            env,
            work,
            ws_dirs: vec![ws],
            ws_names: vec!["default"],
            repo_dir,
            known_ops: vec![],
        };
        world.refresh_ops();
        Ok(world)
    }

    pub fn refresh_ops(&mut self) {
        for id in all_op_ids(&self.repo_dir) {
            if !self.known_ops.contains(&id) {
                self.known_ops.push(id);
            }
        }
    }

    pub fn ws_index(&self, ws: u8) -> usize {
        (ws as usize).min(self.ws_dirs.len() - 1)
    }

    pub fn other_ws_name(&self, idx: usize) -> &'static str {
        if self.ws_names.len() > 1 {
            self.ws_names[1 - idx]
        } else {
            "default"
        }
    }

    /// Parent of the current head operation (the head itself if it cannot be determined).
    pub fn prev_op(&self) -> String {
        let heads = crate::engine::cli::op_head_ids(&self.repo_dir);
        let Some(head) = heads.first() else { return "@".into() };
        let parent = loader_for(&self.repo_dir).ok().and_then(|loader| {
            let id = jj_lib::op_store::OperationId::try_from_hex(head)?;
            let op = loader.op_store().read_operation(&id).block_on().ok()?;
            op.parents.first().map(|p| jj_lib::object_id::ObjectId::hex(p))
        });
        parent.unwrap_or_else(|| head.clone())
    }

    pub fn op(&self, raw: u16) -> String {
        self.known_ops[pick(raw, self.known_ops.len())].clone()
    }

    pub fn args_for(&self, idx: usize, cmd: &Cmd, step_no: usize) -> Vec<String> {
        let other = self.other_ws_name(idx);
        let s = |v: &[&str]| v.iter().map(|x| x.to_string()).collect::<Vec<_>>();
        match cmd {
            Cmd::New => s(&["new"]),
            Cmd::NewRev(r) => vec!["new".into(), rev(*r, other)],
            Cmd::EditRev(r) => vec!["edit".into(), rev(*r, other)],
            Cmd::Describe(r) => vec![
                "describe".into(),
                "-m".into(),
                format!("desc {step_no}"),
                "-r".into(),
                rev(*r, other),
            ],
            Cmd::Commit => vec!["commit".into(), "-m".into(), format!("commit {step_no}")],
            Cmd::Squash => s(&["squash"]),
            Cmd::SquashInto(r) => vec![
                "squash".into(),
                "--from".into(),
                "@".into(),
                "--into".into(),
                rev(*r, other),
            ],
            Cmd::Split(p) => vec![
                "split".into(),
                "-m".into(),
                format!("split {step_no}"),
                crate::engine::clihist::PATHS[pick(*p, crate::engine::clihist::PATHS.len())].into(),
            ],
            Cmd::Abandon(r) => vec!["abandon".into(), rev(*r, other)],
            Cmd::Rebase(r, d) => vec![
                "rebase".into(),
                "-r".into(),
                rev(*r, other),
                "-d".into(),
                rev(*d, other),
            ],
            Cmd::Restore => s(&["restore"]),
            Cmd::RestoreFrom(r) => vec!["restore".into(), "--from".into(), rev(*r, other)],
            Cmd::Undo => s(&["undo"]),
            Cmd::Redo => s(&["redo"]),
            Cmd::OpRestore(o) => vec!["op".into(), "restore".into(), self.op(*o)],
            Cmd::AtOpLog(o) => vec!["--at-op".into(), self.op(*o), "log".into()],
            Cmd::AtOpMutate(o) => vec![
                "--at-op".into(),
                self.op(*o),
                "describe".into(),
                "-m".into(),
                format!("at-op {step_no}"),
            ],
            Cmd::AtOpNew(o) => vec!["--at-op".into(), self.op(*o), "new".into(), "@-".into()],
            Cmd::AtOpPrevNew => vec!["--at-op".into(), self.prev_op(), "new".into(), "@--".into()],
            Cmd::AtOpDescribeRev(o, r) => vec![
                "--at-op".into(),
                self.op(*o),
                "describe".into(),
                "-m".into(),
                format!("at-op-rev {step_no}"),
                "-r".into(),
                rev(*r, other),
            ],
            Cmd::IgnoreWcNew => s(&["--ignore-working-copy", "new"]),
            Cmd::IgnoreWcDescribe => vec![
                "--ignore-working-copy".into(),
                "describe".into(),
                "-m".into(),
                format!("iwc {step_no}"),
            ],
            Cmd::WorkspaceAdd => s(&["workspace", "add", "../ws2"]),
            Cmd::UpdateStale => s(&["workspace", "update-stale"]),
            Cmd::WorkspaceForgetOther => vec!["workspace".into(), "forget".into(), other.into()],
            Cmd::Status => s(&["status"]),
            Cmd::BookmarkSet(r) => vec![
                "bookmark".into(),
                "set".into(),
                "main".into(),
                "-r".into(),
                rev(*r, other),
                "--allow-backwards".into(),
            ],
            Cmd::Metaedit(r) => vec![
                "metaedit".into(),
                "--update-author-timestamp".into(),
                "--force-rewrite".into(),
                rev(*r, other),
            ],
            Cmd::Parallelize(r) => vec!["parallelize".into(), format!("({})-::({})", rev(*r, other), rev(*r, other))],
            Cmd::SimplifyParents(r) => vec!["simplify-parents".into(), "-r".into(), rev(*r, other)],
            Cmd::Duplicate(r) => vec!["duplicate".into(), rev(*r, other)],
            Cmd::Absorb => s(&["absorb"]),
            Cmd::RebaseSource(r, d) => vec![
                "rebase".into(),
                "-s".into(),
                rev(*r, other),
                "-d".into(),
                rev(*d, other),
            ],
            Cmd::RebaseBranch(r, d) => vec![
                "rebase".into(),
                "-b".into(),
                rev(*r, other),
                "-d".into(),
                rev(*d, other),
            ],
            Cmd::SquashFromInto(f, t) => vec![
                "squash".into(),
                "--from".into(),
                rev(*f, other),
                "--into".into(),
                rev(*t, other),
                "-m".into(),
                format!("squashed {step_no}"),
            ],
            Cmd::TagSet(r) => vec![
                "tag".into(),
                "set".into(),
                "v1".into(),
                "-r".into(),
                rev(*r, other),
                "--allow-move".into(),
            ],
            Cmd::AbandonDescendants(r) => vec!["abandon".into(), format!("({})::", rev(*r, other))],
        }
    }

    /// Runs a command in workspace `idx`; registers ws2 when it appears.
    pub fn run(&mut self, idx: usize, args: &[String]) -> crate::engine::cli::Output {
        let argv: Vec<&str> = args.iter().map(|s| s.as_str()).collect();
        let out = self.env.jj(&self.ws_dirs[idx], &argv);
        let ws2 = self.work.join("ws2");
        if self.ws_dirs.len() == 1 && ws2.join(".jj").is_dir() {
            self.ws_dirs.push(ws2);
            self.ws_names.push("ws2");
        }
        self.refresh_ops();
        out
    }
}

/// Does some stored operation record `disk` as the working-copy commit of
/// `workspace`?
pub fn disk_state_recorded(
    repo_dir: &Path,
    workspace: &str,
    disk: &DiskState,
) -> Result<(bool, bool), String> {
    let loader = loader_for(repo_dir)?;
    let root_op = loader.root_operation().block_on();
    let repo = loader.load_at(&root_op).block_on().map_err(|e| format!("{e:?}"))?;
    let mut saw_conflict = false;
    for commit_id in wc_commits_of_all_ops(&loader, repo_dir, workspace) {
        let Ok((state, conflicted)) = commit_tree_state(&repo, &commit_id) else { continue };
        let keys_tree: BTreeSet<&String> = state.keys().chain(conflicted.iter()).collect();
        let keys_disk: BTreeSet<&String> = disk.keys().collect();
        if keys_tree != keys_disk {
            continue;
        }
        let resolved_equal = state.iter().all(|(p, e)| disk.get(p) == Some(e));
        let conflicts_are_files = conflicted
            .iter()
            .all(|p| matches!(disk.get(p), Some(DiskEntry::File { .. })));
        if resolved_equal && conflicts_are_files {
            saw_conflict |= !conflicted.is_empty();
            return Ok((true, saw_conflict));
        }
    }
    Ok((false, saw_conflict))
}

fn check(case: &Case) -> CheckResult {
    let mut world = World::new("c40-")?;
    let mut nontrivial = false;
    let mut classes: BTreeSet<&'static str> = BTreeSet::new();
    // Expand composite steps into primitives.
    let mut steps: Vec<Step> = vec![];
    for step in &case.steps {
        match step {
            Step::StaleThenRecover { ws, how, edits } => {
                match how {
                    // the repo's idea of this workspace's @ moves without touching the disk
                    0 => steps.push(Step::Cmd { ws: *ws, cmd: Cmd::IgnoreWcNew }),
                    // the other workspace rewrites this workspace's @ (needs two workspaces)
                    1 => {
                        steps.push(Step::Cmd { ws: 0, cmd: Cmd::WorkspaceAdd });
                        // REVS[8] is "{ws}@": describe the other workspace's working-copy commit
                        steps.push(Step::Cmd { ws: 1 - (*ws).min(1), cmd: Cmd::Describe(8 * 6554 + 100) });
                    }
                    2 => steps.push(Step::Cmd { ws: *ws, cmd: Cmd::IgnoreWcDescribe }),
                    // a command at an older operation moves / rewrites this workspace's @ on a
                    // sibling operation (divergent op heads), right after an ordinary command
                    3 | 4 => {
                        // two commits with different content so that @-- has another tree
                        steps.push(Step::Edit { ws: *ws, edit: Edit::Write(0, 9000) });
                        steps.push(Step::Cmd { ws: *ws, cmd: Cmd::Commit });
                        steps.push(Step::Edit { ws: *ws, edit: Edit::Write(0, 18000) });
                        steps.push(Step::Cmd { ws: *ws, cmd: Cmd::Commit });
                        // an ordinary command that leaves @ alone (REVS[1] = "@-") ...
                        steps.push(Step::Cmd { ws: *ws, cmd: Cmd::BookmarkSet(6554 + 100) });
                        // ... then, at the operation before it, move @
                        steps.push(Step::Cmd { ws: *ws, cmd: Cmd::AtOpPrevNew });
                    }
                    _ => {
                        steps.push(Step::Cmd { ws: *ws, cmd: Cmd::Commit });
                        steps.push(Step::Cmd { ws: *ws, cmd: Cmd::AtOpDescribeRev(64000, 6554 + 100) });
                    }
                }
                for e in edits {
                    steps.push(Step::Edit { ws: *ws, edit: e.clone() });
                }
                steps.push(Step::Cmd { ws: *ws, cmd: Cmd::UpdateStale });
            }
            other => steps.push(other.clone()),
        }
    }
    for (step_no, step) in steps.iter().enumerate() {
        match step {
            Step::StaleThenRecover { .. } => unreachable!(),
            Step::Edit { ws, edit } => {
                let idx = world.ws_index(*ws);
                apply_edit(&world.ws_dirs[idx], edit);
            }
            Step::Cmd { ws, cmd } => {
                let idx = world.ws_index(*ws);
                if matches!(cmd, Cmd::WorkspaceAdd) && world.ws_dirs.len() > 1 {
                    continue;
                }
                let args = world.args_for(idx, cmd, step_no);
                let ws_dir = world.ws_dirs[idx].clone();
                let ws_name = world.ws_names[idx];
                let before = read_disk(&ws_dir);
                let op_heads_before = crate::engine::cli::op_head_ids(&world.repo_dir);
                let out = world.run(idx, &args);
                if out.signal.is_some() {
                    return Err(Violation::new(format!(
                        "step {step_no}: `jj {}` died: {}",
                        args.join(" "),
                        out.brief()
                    )));
                }
                let after = read_disk(&ws_dir);
                if out.stderr.contains("working copy is stale") || out.stderr.contains("update-stale") {
                    classes.insert("stale-error");
                }
                if after == before {
                    continue;
                }
                let (recorded, conflict) = disk_state_recorded(&world.repo_dir, ws_name, &before)
                    .map_err(|e| Violation::new(format!("step {step_no}: inspecting repo: {e}")))?;
                if !recorded {
                    let changed: Vec<&String> = before
                        .iter()
                        .filter(|(p, e)| after.get(*p) != Some(*e))
                        .map(|(p, _)| p)
                        .collect();
                    // Known finding: the workspace had been forgotten (no working-copy commit in
                    // the view the command started from), so nothing could be snapshotted, and a
                    // restoring command brought the workspace back and overwrote the files.
                    let forgotten_before = match op_heads_before.as_slice() {
                        [head] => crate::engine::cli::loader_for(&world.repo_dir)
                            .and_then(|loader| crate::engine::cli::load_at_op(&loader, head))
                            .map(|repo| {
                                !crate::engine::clihist::view_state(&repo).wc.contains_key(ws_name)
                            })
                            .unwrap_or(false),
                        _ => false,
                    };
                    if forgotten_before {
                        return Err(Violation::known(
                            "C40-forgotten-workspace-edits-lost-on-restore",
                            format!(
                                "step {step_no}: `jj {}` in the forgotten workspace {ws_name} re-created the \
                                 workspace and overwrote files edited after `workspace forget` (paths {changed:?})",
                                args.join(" ")
                            ),
                        ));
                    }
                    return Err(Violation::new(format!(
                        "step {step_no}: `jj {}` in workspace {ws_name} changed the working copy (paths {changed:?} \
                         differ) but no stored operation records the disk state from before the command as \
                         that workspace's working-copy commit; exit={:?} stderr={:?}",
                        args.join(" "),
                        out.code,
                        out.stderr.chars().take(400).collect::<String>()
                    )));
                }
                nontrivial = true;
                classes.insert("disk-changed");
                if conflict {
                    classes.insert("conflicted-wc");
                }
                match cmd {
                    Cmd::UpdateStale => {
                        classes.insert("update-stale-changed-disk");
                    }
                    Cmd::OpRestore(_) | Cmd::Undo | Cmd::Redo => {
                        classes.insert("undo/op-restore-changed-disk");
                    }
                    Cmd::AtOpLog(_) | Cmd::AtOpMutate(_) | Cmd::AtOpNew(_) | Cmd::AtOpPrevNew | Cmd::AtOpDescribeRev(..) => {
                        classes.insert("at-op-changed-disk");
                    }
                    _ => {}
                }
            }
        }
    }
    let mut out = Outcome::new(nontrivial);
    for c in classes {
        out = out.class(c);
    }
    if world.ws_dirs.len() > 1 {
        out = out.class("two-workspaces");
    }
    Ok(out)
}

pub fn run(report: &mut Report) {
    report.set_rule(
        "histories of 10-24 steps (file edits: create/modify/delete/chmod/symlink; real jj commands: new, edit, \
         describe, commit, squash, split, abandon, rebase, restore, undo/redo, op restore, --at-op, \
         --ignore-working-copy, workspace add/update-stale/forget, aimed at random revisions incl. the other \
         workspace's @) on a git-backend repo with 1-2 workspaces; before each command the workspace's disk \
         state is captured; non-trivial = a command changed the disk (so the pre-state had to be found in a \
         stored operation's working-copy commit); distinct by history",
    );
    report.assume("conflicted paths are compared by presence only (they materialise as marker files)");
    let tier = report.tier;
    report.prop(
        "histories",
        tier.pick(24, 1500),
        || prop::collection::vec(step_strategy(), 10..24).prop_map(|steps| Case { steps }),
        check,
    );
}
