//! C43 Per-repo configuration cannot be injected by a copied repository.
//!
//! `SecureConfig::{maybe_load_config, load_config}` take the root of the per-repo
//! config directory as a parameter, so every path this check touches lives in a
//! scratch directory; the real user config directory is never involved.
//!
//! Two sub-checks:
//! * `config_id`: arbitrary contents of the `config-id` file of a (hostile)
//!   repository, with attacker-planted config directories reachable through
//!   relative and absolute paths. A malformed id must select nothing and change
//!   nothing; a well-formed id selects `root/<id>/config.toml` and nothing else.
//! * `history`: random histories of repo creation, load, config edit, copy,
//!   rename, delete, alias (symlink), config-id rewriting and config-dir deletion
//!   against a reference model of the documented mechanism (metadata path =
//!   repo path → same config; recorded path gone → moved; recorded path alive
//!   and a different directory → copied: fresh id, content copied, original
//!   untouched).

use std::collections::BTreeMap;
use std::fs;
use std::path::Path;
use std::path::PathBuf;

use jj_lib::secure_config::LoadedSecureConfig;
use jj_lib::secure_config::SecureConfig;
use jj_lib::secure_config::SecureConfigError;
use jj_lib::secure_config::metadata_path;
use jj_lib::secure_config::read_metadata;
use proptest::prelude::*;
use rand_chacha::ChaCha20Rng;
use rand_chacha::rand_core::SeedableRng as _;
use serde::Deserialize;
use serde::Serialize;

use crate::engine::runner::CheckResult;
use crate::engine::runner::Outcome;
use crate::engine::runner::Report;
use crate::engine::runner::Violation;
use crate::engine::runner::new_scratch_dir;
use crate::engine::runner::pick;
use crate::ensure;
use crate::ensure_eq;
use crate::gens::content::Bytes;

const CONFIG_FILE: &str = "config.toml";
const METADATA_FILE: &str = "metadata.binpb";

/// Repo flavour (`.jj/repo`) or workspace flavour (`.jj`): same mechanism,
/// different file names.
#[derive(Clone, Copy)]
struct Flavour {
    workspace: bool,
}

impl Flavour {
    fn id_name(self) -> &'static str {
        if self.workspace { "workspace-config-id" } else { "config-id" }
    }
    fn legacy_name(self) -> &'static str {
        if self.workspace { "workspace-config.toml" } else { "config.toml" }
    }
    fn secure_config(self, dir: &Path) -> SecureConfig {
        if self.workspace {
            SecureConfig::new_workspace(dir.to_path_buf())
        } else {
            SecureConfig::new_repo(dir.to_path_buf())
        }
    }
}

fn well_formed(id: &[u8]) -> bool {
    id.len() == 20 && id.iter().all(|b| b.is_ascii_hexdigit())
}

fn io<T>(what: &str, r: std::io::Result<T>) -> Result<T, Violation> {
    r.map_err(|e| Violation::new(format!("harness i/o error ({what}): {e}")))
}

fn show(bytes: &[u8]) -> String {
    format!("{:?}", bstr::BStr::new(bytes))
}

#[derive(Debug, Clone, PartialEq, Eq)]
enum Entry {
    Dir,
    File(Vec<u8>),
    Link(PathBuf),
}

/// Everything below `root`, by relative path.
fn snapshot(root: &Path) -> Result<BTreeMap<PathBuf, Entry>, Violation> {
    fn walk(base: &Path, dir: &Path, out: &mut BTreeMap<PathBuf, Entry>) -> std::io::Result<()> {
        for entry in fs::read_dir(dir)? {
            let entry = entry?;
            let path = entry.path();
            let rel = path.strip_prefix(base).unwrap().to_path_buf();
            let meta = fs::symlink_metadata(&path)?;
            if meta.file_type().is_symlink() {
                out.insert(rel, Entry::Link(fs::read_link(&path)?));
            } else if meta.is_dir() {
                out.insert(rel, Entry::Dir);
                walk(base, &path, out)?;
            } else {
                out.insert(rel, Entry::File(fs::read(&path)?));
            }
        }
        Ok(())
    }
    let mut out = BTreeMap::new();
    io("snapshot", walk(root, root, &mut out))?;
    Ok(out)
}

/// Relative paths that differ between two snapshots.
fn changed_paths(
    before: &BTreeMap<PathBuf, Entry>,
    after: &BTreeMap<PathBuf, Entry>,
) -> Vec<PathBuf> {
    let mut out = vec![];
    for (p, e) in before {
        if after.get(p) != Some(e) {
            out.push(p.clone());
        }
    }
    for p in after.keys() {
        if !before.contains_key(p) {
            out.push(p.clone());
        }
    }
    out.sort();
    out
}

/// The confinement oracle for a successfully loaded config file: it is
/// `root/<id>/config.toml` with `<id>` 20 hex digits, lexically and after
/// resolving symlinks. Returns the id.
fn check_confined(root: &Path, config_file: &Path) -> Result<String, Violation> {
    let what = format!("loaded config file {}", config_file.display());
    ensure!(
        config_file.file_name() == Some(std::ffi::OsStr::new(CONFIG_FILE)),
        "{what} is not named {CONFIG_FILE}"
    );
    let dir = config_file.parent().unwrap_or(Path::new(""));
    ensure!(
        dir.parent() == Some(root),
        "{what} is not directly inside a sub-directory of the per-repo config root {}",
        root.display()
    );
    let id = dir.file_name().and_then(|n| n.to_str()).unwrap_or("");
    ensure!(
        well_formed(id.as_bytes()),
        "{what}: directory name {id:?} is not a well-formed config id"
    );
    let real_root = io("canonicalize root", fs::canonicalize(root))?;
    let real_dir = fs::canonicalize(dir).map_err(|e| {
        Violation::new(format!("{what}: its directory cannot be resolved: {e}"))
    })?;
    ensure!(
        real_dir == real_root.join(id),
        "{what} resolves to {} which is not inside the config root",
        real_dir.display()
    );
    Ok(id.to_string())
}

fn describe(result: &Result<LoadedSecureConfig, SecureConfigError>) -> String {
    match result {
        Ok(l) => format!("Ok(config_file={:?})", l.config_file),
        Err(e) => format!("Err({e})"),
    }
}

// ---------------------------------------------------------------------------
// Sub-check 1: contents of the config-id file
// ---------------------------------------------------------------------------

#[derive(Debug, Clone, Serialize, Deserialize)]
pub struct IdCase {
    /// Content of the config-id file. `{S}` is replaced by the absolute scratch
    /// directory, `{V}` by the config id of another (victim) repo of the user.
    pub content: Bytes,
    /// `load_config` (true) or `maybe_load_config`.
    pub force: bool,
    pub workspace: bool,
    /// A legacy config file is present in the repo as well.
    pub legacy: bool,
    pub seed: u64,
}

fn replace_all(haystack: &[u8], needle: &[u8], with: &[u8]) -> Vec<u8> {
    let mut out = vec![];
    let mut i = 0;
    while i < haystack.len() {
        if haystack[i..].starts_with(needle) {
            out.extend_from_slice(with);
            i += needle.len();
        } else {
            out.push(haystack[i]);
            i += 1;
        }
    }
    out
}

fn encode_metadata(path: &Path) -> Vec<u8> {
    // message ConfigMetadata { optional bytes path = 1; }
    let bytes = path.as_os_str().as_encoded_bytes();
    let mut out = vec![0x0a];
    let mut n = bytes.len();
    loop {
        let b = (n & 0x7f) as u8;
        n >>= 7;
        if n == 0 {
            out.push(b);
            break;
        }
        out.push(b | 0x80);
    }
    out.extend_from_slice(bytes);
    out
}

const VICTIM_CONFIG: &[u8] = b"victim = true\n";
const EVIL_CONFIG: &[u8] = b"[aliases]\npwn = ['util', 'exec', '--', 'evil']\n";

fn check_id(case: &IdCase) -> CheckResult {
    let flavour = Flavour { workspace: case.workspace };
    let td = new_scratch_dir("c43i-");
    let td_path = io("canonicalize scratch", fs::canonicalize(td.path()))?;
    // The user's per-repo config root, three levels below the scratch dir so
    // that generated `../` escapes stay inside the scratch dir.
    let root = td_path.join("u/cfg/repos");
    io("mkdir", fs::create_dir_all(&root))?;
    let mut rng = ChaCha20Rng::seed_from_u64(case.seed);

    // Another repo of the same user with a real config.
    let victim = td_path.join("w/victim");
    io("mkdir", fs::create_dir_all(&victim))?;
    let loaded = flavour
        .secure_config(&victim)
        .load_config(&mut rng, &root)
        .map_err(|e| Violation::new(format!("setup: load_config of a fresh repo failed: {e}")))?;
    let victim_file = loaded.config_file.clone().unwrap_or_default();
    let victim_id = check_confined(&root, &victim_file)?;
    io("write victim config", fs::write(&victim_file, VICTIM_CONFIG))?;

    // The hostile repo. It carries complete config directories of its own (valid
    // metadata naming the repo itself plus a config file).
    let repo = td_path.join("w/repo");
    for evil in [repo.join("evil"), td_path.join("evil0123456789abcdef"), td_path.join("e")] {
        io("mkdir", fs::create_dir_all(&evil))?;
        io("write", fs::write(evil.join(METADATA_FILE), encode_metadata(&repo)))?;
        io("write", fs::write(evil.join(CONFIG_FILE), EVIL_CONFIG))?;
        let meta = read_metadata(&evil)
            .map_err(|e| Violation::new(format!("setup: planted metadata unreadable: {e}")))?;
        ensure!(
            metadata_path(&meta).ok().flatten() == Some(repo.as_path()),
            "setup: planted metadata does not decode to the repo path"
        );
    }
    if case.legacy {
        io("write", fs::write(repo.join(flavour.legacy_name()), b"legacy = true\n"))?;
    }
    let content = replace_all(
        &replace_all(&case.content.0, b"{S}", td_path.as_os_str().as_encoded_bytes()),
        b"{V}",
        victim_id.as_bytes(),
    );
    let id_file = repo.join(flavour.id_name());
    io("write config-id", fs::write(&id_file, &content))?;

    let before = snapshot(&td_path)?;
    let config = flavour.secure_config(&repo);
    let result = if case.force {
        config.load_config(&mut rng, &root)
    } else {
        config.maybe_load_config(&mut rng, &root)
    };
    let after = snapshot(&td_path)?;
    let changed = changed_paths(&before, &after);
    let call = format!(
        "{}() with {} = {}",
        if case.force { "load_config" } else { "maybe_load_config" },
        flavour.id_name(),
        show(&content)
    );
    let is_wf = well_formed(&content);
    let mut copied = false;
    if !is_wf {
        // A malformed id selects nothing and nothing is touched.
        if let Ok(LoadedSecureConfig { config_file: Some(path), .. }) = &result {
            return Err(Violation::new(format!(
                "{call}: malformed config id accepted, loaded {}",
                path.display()
            )));
        }
        ensure!(
            changed.is_empty(),
            "{call} = {}: malformed config id, yet these paths changed: {changed:?}",
            describe(&result)
        );
    } else {
        let loaded = match &result {
            Ok(loaded) => loaded,
            Err(e) => {
                return Err(Violation::new(format!("{call}: well-formed id rejected: {e}")));
            }
        };
        let Some(path) = &loaded.config_file else {
            return Err(Violation::new(format!("{call}: well-formed id but no config file")));
        };
        let id = check_confined(&root, path)?;
        let id_after = io("read config-id", fs::read(&id_file))?;
        ensure_eq!(
            show(&id_after),
            show(id.as_bytes()),
            "{call}: the loaded config dir is not the one named by the config-id file afterwards"
        );
        if content == victim_id.as_bytes() {
            // The hostile repo names the config of a live, different repo: it is
            // a copy and gets its own copy of that config.
            copied = true;
            ensure!(id != victim_id, "{call}: shares the config of the live repo {}", victim.display());
            ensure!(
                !before.contains_key(Path::new("u/cfg/repos").join(&id).as_path()),
                "{call}: copy got a config id that already existed"
            );
            let got = fs::read(path).map_err(|e| {
                Violation::new(format!("{call}: the copy's config file has no content: {e}"))
            })?;
            ensure_eq!(show(&got), show(VICTIM_CONFIG), "{call}: copied config content");
        } else {
            ensure_eq!(show(id.as_bytes()), show(&content), "{call}: loaded another id than the one named");
        }
        // Only the repo's own id file and the selected config dir may change.
        let allowed_dir = Path::new("u/cfg/repos").join(&id);
        let allowed_id_file = Path::new("w/repo").join(flavour.id_name());
        for p in &changed {
            ensure!(
                p.starts_with(&allowed_dir) || *p == allowed_id_file,
                "{call} = {}: changed {} outside the selected config dir",
                describe(&result),
                p.display()
            );
        }
    }
    // In every case the other repo's config is untouched.
    ensure_eq!(
        show(&io("read victim config", fs::read(&victim_file))?),
        show(VICTIM_CONFIG),
        "{call}: the config of another repo was modified"
    );
    let has_sep = content.iter().any(|&b| b == b'/' || b == b'.');
    Ok(Outcome::new(!is_wf || copied)
        .class_if(!is_wf, "id:malformed")
        .class_if(is_wf, "id:well-formed")
        .class_if(copied, "id:names-live-repo-config")
        .class_if(!is_wf && content.len() == 20, "id:malformed-len20")
        .class_if(!is_wf && has_sep, "id:path-like")
        .class_if(!is_wf && content.first() == Some(&b'/'), "id:absolute")
        .class_if(std::str::from_utf8(&content).is_err(), "id:non-utf8")
        .class_if(result.is_err(), "id:rejected"))
}

fn hex_string(len: usize) -> impl Strategy<Value = String> {
    prop::collection::vec(
        prop_oneof![
            6 => prop::char::range('0', '9'),
            6 => prop::char::range('a', 'f'),
            2 => prop::char::range('A', 'F'),
        ],
        len,
    )
    .prop_map(|v| v.into_iter().collect())
}

fn id_contents() -> impl Strategy<Value = Bytes> {
    let s = |x: &str| Bytes::from(x);
    // 20-byte relative paths from the config root to planted directories
    let len20_paths = prop_oneof![
        Just(s("../../../w/repo/evil")),
        Just(s("../../../w/repo/./..")),
        Just(s("../../../w/repo/evil").0).prop_map(|mut v| {
            v[19] = b'L';
            Bytes(v)
        }),
        Just(s("./../../../././././e")),
        Just(s("../../..//////////e/")),
    ];
    let relative = prop_oneof![
        Just(s("../x")),
        Just(s("..")),
        Just(s(".")),
        Just(s("../../../e")),
        Just(s("../../../w/repo/evil")),
        Just(s("../../../evil0123456789abcdef")),
        Just(s("{V}/../{V}")),
        Just(s("{V}/")),
        Just(s("./{V}")),
        Just(s("../repos/{V}")),
    ];
    let absolute = prop_oneof![
        Just(s("{S}/w/repo/evil")),
        Just(s("{S}/e")),
        Just(s("{S}/evil0123456789abcdef")),
        Just(s("{S}/u/cfg/repos/{V}")),
        Just(s("{S}/new/dir")),
    ];
    let near_valid = (hex_string(20), 0usize..20, prop_oneof![
        Just("g".to_string()),
        Just("/".to_string()),
        Just(".".to_string()),
        Just("\0".to_string()),
        Just(" ".to_string()),
        Just("\n".to_string()),
        Just("-".to_string()),
        Just("é".to_string()),
        Just("０".to_string()),
        Just("\u{661}".to_string()),
    ], 0u8..3)
        .prop_map(|(hex, pos, bad, mode)| {
            let mut v: Vec<u8> = hex.into_bytes();
            let bad = bad.into_bytes();
            match mode {
                // replace so that the byte length stays 20 where possible
                0 => {
                    let end = (pos + bad.len()).min(20);
                    v.splice(pos..end, bad);
                }
                1 => {
                    v.splice(pos..pos, bad);
                }
                _ => v.extend_from_slice(&bad),
            }
            Bytes(v)
        });
    let victim_variants = prop_oneof![
        4 => Just(s("{V}")),
        1 => Just(s("{V}\n")),
        1 => Just(s(" {V}")),
        1 => Just(s("{V}\0")),
        1 => Just(s("{V}{V}")),
    ];
    prop_oneof![
        4 => hex_string(20).prop_map(|h| Bytes::from(h.as_str())),
        3 => victim_variants,
        3 => (0usize..48).prop_flat_map(hex_string).prop_map(|h| Bytes::from(h.as_str())),
        4 => near_valid,
        3 => len20_paths,
        3 => relative,
        3 => absolute,
        1 => Just(Bytes(vec![])),
        1 => prop::collection::vec(any::<u8>(), 1..=24).prop_map(Bytes),
        1 => prop::collection::vec(any::<u8>(), 20).prop_map(Bytes),
        1 => prop::collection::vec(any::<char>(), 1..=20)
            .prop_map(|v| Bytes(v.into_iter().collect::<String>().into_bytes())),
        1 => (hex_string(1), 256usize..5000).prop_map(|(h, n)| Bytes(h.repeat(n).into_bytes())),
    ]
}

fn id_cases() -> impl Strategy<Value = IdCase> {
    (id_contents(), any::<bool>(), prop::bool::weighted(0.25), prop::bool::weighted(0.25), 0u64..4)
        .prop_map(|(content, force, workspace, legacy, seed)| IdCase {
            content,
            force,
            workspace,
            legacy,
            seed,
        })
}

// ---------------------------------------------------------------------------
// Sub-check 2: histories against the reference model
// ---------------------------------------------------------------------------

#[derive(Debug, Clone, Serialize, Deserialize)]
pub enum Op {
    /// Create a new repo directory, optionally with a legacy config file.
    Create { name: u16, legacy: Option<String> },
    /// Load through a fresh `SecureConfig` (twice: cached and uncached repeat).
    Load { dir: u16, force: bool },
    /// Edit the repo's config file (what `jj config set --repo` does).
    WriteConfig { dir: u16, content: String },
    /// Recursive copy; the original stays. `then_load`: jj is run in the copy
    /// right away.
    Copy { src: u16, dst: u16, then_load: bool },
    Rename { src: u16, dst: u16, then_load: bool },
    Delete { dir: u16 },
    /// Symlink `dst` -> `src` (the same repo under a second path).
    Alias { src: u16, dst: u16 },
    /// Overwrite the config-id with the current id of another repo.
    StealId { dir: u16, from: u16 },
    /// Overwrite the config-id with a well-formed id nobody uses.
    UnknownId { dir: u16, id: String },
    /// Overwrite the config-id with garbage.
    BadId { dir: u16, content: Bytes },
    /// The user removes one per-repo config directory.
    DeleteConfigDir { which: u16 },
}

#[derive(Debug, Clone, Serialize, Deserialize)]
pub struct HistoryCase {
    pub workspace: bool,
    pub seed: u64,
    pub ops: Vec<Op>,
}

const NAMES: &[&str] = &["r0", "r1", "r2", "r3", "r4", "r5"];

#[derive(Debug, Clone, PartialEq, Eq)]
enum Legacy {
    None,
    File(Vec<u8>),
    /// Symlink to the config file of this id (left by the migration).
    Link(String),
}

#[derive(Debug, Clone)]
struct DirModel {
    /// Content of the config-id file: `Ok(id)` well-formed, `Err(bytes)` not.
    id: Option<Result<String, Vec<u8>>>,
    legacy: Legacy,
}

#[derive(Debug, Clone, PartialEq, Eq)]
struct CfgModel {
    /// Repo path recorded in the metadata.
    meta_path: PathBuf,
    /// Content of config.toml, if the file exists.
    content: Option<Vec<u8>>,
}

struct World {
    flavour: Flavour,
    repos_dir: PathBuf,
    root: PathBuf,
    /// Real directories by name.
    dirs: BTreeMap<&'static str, DirModel>,
    /// Symlinks by name -> name of the real directory.
    aliases: BTreeMap<&'static str, &'static str>,
    configs: BTreeMap<String, CfgModel>,
}

impl World {
    fn path(&self, name: &str) -> PathBuf {
        self.repos_dir.join(name)
    }

    fn free_names(&self) -> Vec<&'static str> {
        NAMES
            .iter()
            .copied()
            .filter(|n| !self.dirs.contains_key(n) && !self.aliases.contains_key(n))
            .collect()
    }

    fn pick_dir(&self, raw: u16) -> Option<&'static str> {
        let names: Vec<_> = self.dirs.keys().copied().collect();
        (!names.is_empty()).then(|| names[pick(raw, names.len())])
    }

    fn pick_dir_or_alias(&self, raw: u16) -> Option<&'static str> {
        let names: Vec<_> = self.dirs.keys().chain(self.aliases.keys()).copied().collect();
        (!names.is_empty()).then(|| names[pick(raw, names.len())])
    }

    fn pick_free(&self, raw: u16) -> Option<&'static str> {
        let names = self.free_names();
        (!names.is_empty()).then(|| names[pick(raw, names.len())])
    }

    fn resolve(&self, name: &'static str) -> &'static str {
        self.aliases.get(name).copied().unwrap_or(name)
    }

    /// Name (real dir or alias) a path inside `repos_dir` refers to, if it
    /// currently exists as a directory.
    fn live_dir_at(&self, path: &Path) -> Option<&'static str> {
        let name = path.strip_prefix(&self.repos_dir).ok()?.to_str()?;
        let name = NAMES.iter().copied().find(|n| *n == name)?;
        (self.dirs.contains_key(name) || self.aliases.contains_key(name)).then_some(name)
    }

    fn drop_aliases_of(&mut self, target: &str) -> Result<(), Violation> {
        let names: Vec<_> = self
            .aliases
            .iter()
            .filter(|(_, t)| **t == target)
            .map(|(n, _)| *n)
            .collect();
        for n in names {
            io("remove alias", fs::remove_file(self.path(n)))?;
            self.aliases.remove(n);
        }
        Ok(())
    }

    /// Compares the whole scratch state with the model.
    fn check_state(&self, after: &str) -> Result<(), Violation> {
        let mut listed = vec![];
        for entry in io("list root", fs::read_dir(&self.root))? {
            let entry = io("list root", entry)?;
            listed.push(entry.file_name().to_string_lossy().into_owned());
        }
        listed.sort();
        let expected: Vec<String> = self.configs.keys().cloned().collect();
        ensure_eq!(listed, expected, "after {after}: directories in the per-repo config root");
        for (id, cfg) in &self.configs {
            let dir = self.root.join(id);
            let meta = read_metadata(&dir).map_err(|e| {
                Violation::new(format!("after {after}: metadata of config {id} unreadable: {e}"))
            })?;
            let path = metadata_path(&meta).ok().flatten().map(Path::to_path_buf);
            ensure_eq!(
                path,
                Some(cfg.meta_path.clone()),
                "after {after}: repo path recorded in the metadata of config {id}"
            );
            let content = match fs::read(dir.join(CONFIG_FILE)) {
                Ok(c) => Some(c),
                Err(e) if e.kind() == std::io::ErrorKind::NotFound => None,
                Err(e) => return Err(Violation::new(format!("harness i/o error: {e}"))),
            };
            ensure_eq!(
                content.as_deref().map(show),
                cfg.content.as_deref().map(show),
                "after {after}: content of the config file of {id}"
            );
            let mut names = vec![];
            for entry in io("list config dir", fs::read_dir(&dir))? {
                names.push(io("list", entry)?.file_name().to_string_lossy().into_owned());
            }
            ensure!(
                names.iter().all(|n| n == CONFIG_FILE || n == METADATA_FILE),
                "after {after}: stray files in config dir {id}: {names:?}"
            );
        }
        for (name, dir) in &self.dirs {
            let path = self.path(name);
            let id_file = path.join(self.flavour.id_name());
            let got = match fs::read(&id_file) {
                Ok(c) => Some(c),
                Err(e) if e.kind() == std::io::ErrorKind::NotFound => None,
                Err(e) => return Err(Violation::new(format!("harness i/o error: {e}"))),
            };
            let want = dir.id.as_ref().map(|r| match r {
                Ok(id) => id.as_bytes().to_vec(),
                Err(bytes) => bytes.clone(),
            });
            ensure_eq!(
                got.as_deref().map(show),
                want.as_deref().map(show),
                "after {after}: config-id file of {name}"
            );
            let legacy_path = path.join(self.flavour.legacy_name());
            let got = match fs::symlink_metadata(&legacy_path) {
                Err(e) if e.kind() == std::io::ErrorKind::NotFound => Legacy::None,
                Err(e) => return Err(Violation::new(format!("harness i/o error: {e}"))),
                Ok(m) if m.file_type().is_symlink() => {
                    let target = io("readlink", fs::read_link(&legacy_path))?;
                    let id = target
                        .strip_prefix(&self.root)
                        .ok()
                        .filter(|rest| rest.file_name() == Some(std::ffi::OsStr::new(CONFIG_FILE)))
                        .and_then(|rest| rest.parent())
                        .and_then(|p| p.to_str())
                        .filter(|id| well_formed(id.as_bytes()));
                    match id {
                        Some(id) => Legacy::Link(id.to_string()),
                        None => {
                            return Err(Violation::new(format!(
                                "after {after}: legacy config of {name} links to {} outside the \
                                 config root",
                                target.display()
                            )));
                        }
                    }
                }
                Ok(_) => Legacy::File(io("read legacy", fs::read(&legacy_path))?),
            };
            ensure_eq!(got, dir.legacy, "after {after}: legacy config file of {name}");
            let mut names = vec![];
            for entry in io("list repo dir", fs::read_dir(&path))? {
                names.push(io("list", entry)?.file_name().to_string_lossy().into_owned());
            }
            ensure!(
                names
                    .iter()
                    .all(|n| n == self.flavour.id_name() || n == self.flavour.legacy_name()),
                "after {after}: stray files in repo dir {name}: {names:?}"
            );
        }
        Ok(())
    }
}

fn copy_dir(src: &Path, dst: &Path) -> std::io::Result<()> {
    fs::create_dir(dst)?;
    for entry in fs::read_dir(src)? {
        let entry = entry?;
        let from = entry.path();
        let to = dst.join(entry.file_name());
        let meta = fs::symlink_metadata(&from)?;
        if meta.file_type().is_symlink() {
            std::os::unix::fs::symlink(fs::read_link(&from)?, &to)?;
        } else {
            fs::copy(&from, &to)?;
        }
    }
    Ok(())
}

#[derive(Default)]
struct Stats {
    copies: u32,
    moves: u32,
    alias_shared: u32,
    adopted: u32,
    migrated: u32,
    fresh: u32,
    same: u32,
    bad_id: u32,
    none: u32,
    writes: u32,
    isolation_probes: u32,
}

/// What the model expects a load to do.
enum Expect {
    /// Malformed id: nothing is loaded, nothing changes.
    Reject,
    /// No id, no legacy config, `maybe_load_config`: no config file.
    NoConfig,
    /// The config with this existing id, unchanged.
    Existing(String),
    /// A new id never seen before; config content and legacy link as given.
    Fresh { content: Option<Vec<u8>>, copied_from: Option<String>, migrated: bool },
}

fn run_load(
    w: &mut World,
    rng: &mut ChaCha20Rng,
    name: &'static str,
    force: bool,
    stats: &mut Stats,
) -> Result<(), Violation> {
    let real = w.resolve(name);
    let path = w.path(name);
    let what = format!(
        "{}({})",
        if force { "load_config" } else { "maybe_load_config" },
        name
    );
    let dir = w.dirs[real].clone();
    let expect = match &dir.id {
        Some(Err(_)) => Expect::Reject,
        None => match &dir.legacy {
            Legacy::File(content) => {
                Expect::Fresh { content: Some(content.clone()), copied_from: None, migrated: true }
            }
            Legacy::None if force => {
                Expect::Fresh { content: None, copied_from: None, migrated: false }
            }
            Legacy::None => Expect::NoConfig,
            Legacy::Link(_) => {
                return Err(Violation::new("harness: legacy link without config id is unreachable"));
            }
        },
        Some(Ok(id)) => match w.configs.get(id).cloned() {
            None => {
                // Unknown id, or the user removed the config dir: it is (re)created
                // empty for this repo.
                w.configs
                    .insert(id.clone(), CfgModel { meta_path: path.clone(), content: None });
                stats.adopted += 1;
                Expect::Existing(id.clone())
            }
            Some(cfg) if cfg.meta_path == path => {
                stats.same += 1;
                Expect::Existing(id.clone())
            }
            Some(cfg) => match w.live_dir_at(&cfg.meta_path) {
                None => {
                    // The recorded repo is gone: this repo was moved.
                    w.configs.get_mut(id).unwrap().meta_path = path.clone();
                    stats.moves += 1;
                    Expect::Existing(id.clone())
                }
                Some(other) if w.resolve(other) == real => {
                    // Same directory under another path.
                    stats.alias_shared += 1;
                    Expect::Existing(id.clone())
                }
                Some(_) => {
                    // The recorded repo is alive and is a different directory:
                    // this one is a copy.
                    Expect::Fresh {
                        content: cfg.content.clone(),
                        copied_from: Some(id.clone()),
                        migrated: false,
                    }
                }
            },
        },
    };

    let ids_before: Vec<String> = w.configs.keys().cloned().collect();
    let config = w.flavour.secure_config(&path);
    let result = if force {
        config.load_config(rng, &w.root)
    } else {
        config.maybe_load_config(rng, &w.root)
    };
    let loaded_file = match (&expect, &result) {
        (Expect::Reject, Ok(LoadedSecureConfig { config_file: Some(p), .. })) => {
            return Err(Violation::new(format!(
                "{what}: malformed config id {} accepted, loaded {}",
                show(dir.id.as_ref().unwrap().as_ref().unwrap_err()),
                p.display()
            )));
        }
        (Expect::Reject, _) => {
            stats.bad_id += 1;
            None
        }
        (_, Err(e)) => return Err(Violation::new(format!("{what} failed: {e}"))),
        (Expect::NoConfig, Ok(loaded)) => {
            ensure!(
                loaded.config_file.is_none(),
                "{what}: repo without config id and legacy config got {:?}",
                loaded.config_file
            );
            stats.none += 1;
            None
        }
        (_, Ok(loaded)) => {
            let Some(file) = loaded.config_file.clone() else {
                return Err(Violation::new(format!("{what}: no config file returned")));
            };
            Some(file)
        }
    };
    if let Some(file) = &loaded_file {
        // Confinement, always.
        let id = check_confined(&w.root, file)?;
        match &expect {
            Expect::Existing(want) => {
                ensure_eq!(&id, want, "{what}: loaded config id");
            }
            Expect::Fresh { content, copied_from, migrated } => {
                if let Some(orig) = copied_from {
                    ensure!(
                        &id != orig,
                        "{what}: the repo is a copy of the live repo {} but shares its config {orig}",
                        w.configs[orig].meta_path.display()
                    );
                    stats.copies += 1;
                } else if *migrated {
                    stats.migrated += 1;
                } else {
                    stats.fresh += 1;
                }
                ensure!(
                    !ids_before.contains(&id),
                    "{what}: new config id {id} collides with an existing config"
                );
                w.configs
                    .insert(id.clone(), CfgModel { meta_path: path.clone(), content: content.clone() });
                let d = w.dirs.get_mut(real).unwrap();
                d.id = Some(Ok(id.clone()));
                if *migrated {
                    d.legacy = Legacy::Link(id.clone());
                }
            }
            Expect::Reject | Expect::NoConfig => unreachable!(),
        }
        // Repeated loads are stable: cached ...
        let again = config
            .maybe_load_config(rng, &w.root)
            .map_err(|e| Violation::new(format!("{what}: cached reload failed: {e}")))?;
        ensure_eq!(again.config_file.as_ref(), Some(file), "{what}: cached reload");
    }
    w.check_state(&what)?;
    if let Some(file) = &loaded_file {
        // ... and from scratch.
        let again = w
            .flavour
            .secure_config(&path)
            .maybe_load_config(rng, &w.root)
            .map_err(|e| Violation::new(format!("{what}: second load failed: {e}")))?;
        ensure_eq!(again.config_file.as_ref(), Some(file), "{what}: second load");
        w.check_state(&format!("{what} repeated"))?;
    }
    Ok(())
}

fn check_history(case: &HistoryCase) -> CheckResult {
    let flavour = Flavour { workspace: case.workspace };
    let td = new_scratch_dir("c43h-");
    let td_path = io("canonicalize scratch", fs::canonicalize(td.path()))?;
    let mut w = World {
        flavour,
        repos_dir: td_path.join("w"),
        root: td_path.join("u/cfg/repos"),
        dirs: BTreeMap::new(),
        aliases: BTreeMap::new(),
        configs: BTreeMap::new(),
    };
    io("mkdir", fs::create_dir_all(&w.repos_dir))?;
    io("mkdir", fs::create_dir_all(&w.root))?;
    let mut rng = ChaCha20Rng::seed_from_u64(case.seed);
    let mut stats = Stats::default();

    for (i, op) in case.ops.iter().enumerate() {
        let step = format!("op #{i} {op:?}");
        match op {
            Op::Create { name, legacy } => {
                let Some(name) = w.pick_free(*name) else { continue };
                let path = w.path(name);
                io("mkdir", fs::create_dir(&path))?;
                let legacy = match legacy {
                    Some(content) => {
                        io("write", fs::write(path.join(flavour.legacy_name()), content))?;
                        Legacy::File(content.clone().into_bytes())
                    }
                    None => Legacy::None,
                };
                w.dirs.insert(name, DirModel { id: None, legacy });
            }
            Op::Load { dir, force } => {
                let Some(name) = w.pick_dir_or_alias(*dir) else { continue };
                run_load(&mut w, &mut rng, name, *force, &mut stats)?;
            }
            Op::WriteConfig { dir, content } => {
                let Some(name) = w.pick_dir(*dir) else { continue };
                let Some(Ok(id)) = w.dirs[name].id.clone() else { continue };
                let Some(cfg) = w.configs.get_mut(&id) else { continue };
                io("write config", fs::write(w.root.join(&id).join(CONFIG_FILE), content))?;
                cfg.content = Some(content.clone().into_bytes());
                stats.writes += 1;
                // Isolation: no other config sees the write (checked below by
                // the full state comparison).
                if w.configs.len() > 1 {
                    stats.isolation_probes += 1;
                }
            }
            Op::Copy { src, dst, then_load } => {
                let (Some(src), Some(dst)) = (w.pick_dir(*src), w.pick_free(*dst)) else { continue };
                io("copy", copy_dir(&w.path(src), &w.path(dst)))?;
                let model = w.dirs[src].clone();
                w.dirs.insert(dst, model);
                if *then_load {
                    w.check_state(&step)?;
                    run_load(&mut w, &mut rng, dst, true, &mut stats)?;
                }
            }
            Op::Rename { src, dst, then_load } => {
                let (Some(src), Some(dst)) = (w.pick_dir(*src), w.pick_free(*dst)) else { continue };
                w.drop_aliases_of(src)?;
                io("rename", fs::rename(w.path(src), w.path(dst)))?;
                let model = w.dirs.remove(src).unwrap();
                w.dirs.insert(dst, model);
                if *then_load {
                    w.check_state(&step)?;
                    run_load(&mut w, &mut rng, dst, true, &mut stats)?;
                }
            }
            Op::Delete { dir } => {
                let Some(name) = w.pick_dir(*dir) else { continue };
                w.drop_aliases_of(name)?;
                io("delete", fs::remove_dir_all(w.path(name)))?;
                w.dirs.remove(name);
            }
            Op::Alias { src, dst } => {
                let (Some(src), Some(dst)) = (w.pick_dir(*src), w.pick_free(*dst)) else { continue };
                io("symlink", std::os::unix::fs::symlink(w.path(src), w.path(dst)))?;
                w.aliases.insert(dst, src);
            }
            Op::StealId { dir, from } => {
                let (Some(name), Some(from)) = (w.pick_dir(*dir), w.pick_dir(*from)) else { continue };
                let Some(Ok(id)) = w.dirs[from].id.clone() else { continue };
                io("write id", fs::write(w.path(name).join(flavour.id_name()), &id))?;
                w.dirs.get_mut(name).unwrap().id = Some(Ok(id));
            }
            Op::UnknownId { dir, id } => {
                let Some(name) = w.pick_dir(*dir) else { continue };
                io("write id", fs::write(w.path(name).join(flavour.id_name()), id))?;
                w.dirs.get_mut(name).unwrap().id = Some(Ok(id.clone()));
            }
            Op::BadId { dir, content } => {
                let Some(name) = w.pick_dir(*dir) else { continue };
                if well_formed(&content.0) {
                    continue;
                }
                io("write id", fs::write(w.path(name).join(flavour.id_name()), &content.0))?;
                w.dirs.get_mut(name).unwrap().id = Some(Err(content.0.clone()));
            }
            Op::DeleteConfigDir { which } => {
                if w.configs.is_empty() {
                    continue;
                }
                let id = w.configs.keys().nth(pick(*which, w.configs.len())).unwrap().clone();
                io("delete config dir", fs::remove_dir_all(w.root.join(&id)))?;
                w.configs.remove(&id);
                // Legacy links into it now dangle; that is what the model says too.
            }
        }
        w.check_state(&step)?;
    }
    drop(td);
    Ok(Outcome::new(stats.copies > 0 || stats.bad_id > 0)
        .class_if(stats.copies > 0, "hist:copy-detected")
        .class_if(stats.copies >= 2, "hist:copy-detected>=2")
        .class_if(stats.moves > 0, "hist:moved")
        .class_if(stats.alias_shared > 0, "hist:alias-shared")
        .class_if(stats.adopted > 0, "hist:unknown-or-deleted-id-adopted")
        .class_if(stats.migrated > 0, "hist:legacy-migrated")
        .class_if(stats.fresh > 0, "hist:fresh-id")
        .class_if(stats.same > 0, "hist:reload-same")
        .class_if(stats.bad_id > 0, "hist:bad-id-rejected")
        .class_if(stats.none > 0, "hist:no-config")
        .class_if(stats.copies > 0 && stats.isolation_probes > 0, "hist:copy+write-isolation")
        .class_if(stats.copies == 0 && stats.bad_id == 0, "hist:trivial"))
}

fn small_content() -> impl Strategy<Value = String> {
    prop_oneof![
        Just(String::new()),
        Just("a = 1\n".to_string()),
        Just("b = 2\n".to_string()),
        Just("[ui]\ncolor = 'never'\n".to_string()),
        "[a-z]{1,6}".prop_map(|k| format!("{k} = true\n")),
    ]
}

fn bad_id_content() -> impl Strategy<Value = Bytes> {
    prop_oneof![
        Just(Bytes::from("")),
        Just(Bytes::from("../../../w/r0")),
        Just(Bytes::from("../../../w/r0/xxxxxx")),
        Just(Bytes::from("0123456789abcdef0123\n")),
        Just(Bytes::from("0123456789abcdef012")),
        Just(Bytes::from("0123456789abcdef012g")),
        Just(Bytes(vec![0xff; 20])),
        hex_string(19).prop_map(|h| Bytes::from(format!("{h}/").as_str())),
    ]
}

fn ops() -> impl Strategy<Value = Op> {
    let r = any::<u16>;
    prop_oneof![
        4 => (r(), prop::option::weighted(0.3, small_content()))
            .prop_map(|(name, legacy)| Op::Create { name, legacy }),
        10 => (r(), prop::bool::weighted(0.8)).prop_map(|(dir, force)| Op::Load { dir, force }),
        3 => (r(), small_content()).prop_map(|(dir, content)| Op::WriteConfig { dir, content }),
        8 => (r(), r(), any::<bool>())
            .prop_map(|(src, dst, then_load)| Op::Copy { src, dst, then_load }),
        3 => (r(), r(), any::<bool>())
            .prop_map(|(src, dst, then_load)| Op::Rename { src, dst, then_load }),
        2 => r().prop_map(|dir| Op::Delete { dir }),
        2 => (r(), r()).prop_map(|(src, dst)| Op::Alias { src, dst }),
        2 => (r(), r()).prop_map(|(dir, from)| Op::StealId { dir, from }),
        1 => (r(), hex_string(20)).prop_map(|(dir, id)| Op::UnknownId { dir, id }),
        1 => (r(), bad_id_content()).prop_map(|(dir, content)| Op::BadId { dir, content }),
        1 => r().prop_map(|which| Op::DeleteConfigDir { which }),
    ]
}

fn history_cases() -> impl Strategy<Value = HistoryCase> {
    (
        prop::bool::weighted(0.25),
        0u64..1000,
        prop::option::weighted(0.3, small_content()),
        prop::collection::vec(ops(), 0..=16),
    )
        .prop_map(|(workspace, seed, legacy, mut ops)| {
            // Every history starts with a created and loaded repo.
            ops.insert(0, Op::Create { name: 0, legacy });
            ops.insert(1, Op::Load { dir: 0, force: true });
            HistoryCase { workspace, seed, ops }
        })
}

pub fn run(report: &mut Report) {
    report.set_rule(
        "config_id: one hostile repo next to a victim repo with a real config; config-id content \
         from: valid ids (any case), the victim's id (+ trailing newline / NUL / doubled), hex of \
         length 0..48, near-valid 20-byte strings with one bad character (g / . NUL space newline \
         multi-byte unicode), 20-byte and other relative paths and absolute paths leading to \
         attacker-planted complete config dirs, raw bytes, unicode, 256..5000 bytes; both loaders, \
         repo and workspace flavour, legacy file present or not. history: 2 fixed + 0..16 random \
         ops (create, load, write config, copy, rename, delete, alias, steal/unknown/bad id, \
         delete config dir) over six directory names, each load repeated cached and uncached, \
         full state compared with the model after every op. Non-trivial = config_id: content is \
         malformed or names the config of a live other repo; history: at least one load detected \
         a copy of a live repo or rejected a malformed id",
    );
    report.assume(
        "the per-repo config root is the `root_config_dir` argument (as in jj's own tests); the \
         user's config root itself is not attacker-controlled (no symlinks planted inside it)",
    );
    report.assume(
        "process runs as root here, so read-only repository copies cannot be produced with chmod; \
         the statement only speaks about writable copies",
    );
    report.assume("one RNG per history (ids are never re-seeded within a history)");
    let tier = report.tier;
    report.prop("config_id", tier.pick(8_000, 400_000), id_cases, check_id);
    report.prop("history", tier.pick(5_000, 250_000), history_cases, check_history);
}
