//! C02 Automatic conflict resolution is exactly the cancellation rule.

use std::collections::BTreeMap;

use jj_lib::merge::Merge;
use jj_lib::merge::SameChange;
use jj_lib::merge::trivial_merge;
use proptest::prelude::*;
use serde::Deserialize;
use serde::Serialize;

use crate::engine::runner::CheckResult;
use crate::engine::runner::Outcome;
use crate::engine::runner::Report;
use crate::engine::runner::pick;
use crate::ensure_eq;

/// Independent counting definition of trivial resolution.
pub fn oracle<T: Ord + Clone>(values: &[T], accept_same_change: bool) -> Option<T> {
    let mut counts: BTreeMap<T, i32> = BTreeMap::new();
    for (i, v) in values.iter().enumerate() {
        *counts.entry(v.clone()).or_insert(0) += if i % 2 == 0 { 1 } else { -1 };
    }
    let left: Vec<(T, i32)> = counts.into_iter().filter(|(_, c)| *c != 0).collect();
    match left.as_slice() {
        [(v, c)] => {
            assert_eq!(*c, 1);
            Some(v.clone())
        }
        [(v1, c1), (v2, _c2)] if accept_same_change => {
            Some(if *c1 > 0 { v1.clone() } else { v2.clone() })
        }
        _ => None,
    }
}

#[derive(Debug, Clone, Serialize, Deserialize)]
pub struct Case {
    pub terms: Vec<u8>,
    /// Permutation seeds (only used by the random sub-check).
    pub perm: Vec<u16>,
}

fn permute_same_parity(terms: &[u8], perm: &[u16]) -> Vec<u8> {
    let mut adds: Vec<u8> = terms.iter().step_by(2).copied().collect();
    let mut removes: Vec<u8> = terms.iter().skip(1).step_by(2).copied().collect();
    let mut it = perm.iter().copied().chain(std::iter::repeat(0));
    for v in [&mut adds, &mut removes] {
        // Fisher-Yates driven by the generated numbers
        for i in (1..v.len()).rev() {
            let j = pick(it.next().unwrap(), i + 1);
            v.swap(i, j);
        }
    }
    let mut out = Vec::with_capacity(terms.len());
    for i in 0..terms.len() {
        out.push(if i % 2 == 0 { adds[i / 2] } else { removes[i / 2] });
    }
    out
}

fn check(case: &Case) -> CheckResult {
    let terms = &case.terms;
    let keep = trivial_merge(terms, SameChange::Keep).copied();
    let accept = trivial_merge(terms, SameChange::Accept).copied();
    ensure_eq!(keep, oracle(terms, false), "trivial_merge(Keep) vs counting oracle on {terms:?}");
    ensure_eq!(accept, oracle(terms, true), "trivial_merge(Accept) vs counting oracle on {terms:?}");
    let m = Merge::from_vec(terms.clone());
    ensure_eq!(m.resolve_trivial(SameChange::Keep).copied(), keep, "resolve_trivial(Keep)");
    ensure_eq!(m.resolve_trivial(SameChange::Accept).copied(), accept, "resolve_trivial(Accept)");
    // Keep-resolution implies the same Accept-resolution.
    if keep.is_some() {
        ensure_eq!(keep, accept, "Keep resolves but Accept differs");
    }
    // Order-insensitivity within adds and within removes.
    let permuted = permute_same_parity(terms, &case.perm);
    ensure_eq!(
        trivial_merge(&permuted, SameChange::Keep).copied(),
        keep,
        "permuting adds/removes changed Keep result ({terms:?} -> {permuted:?})"
    );
    ensure_eq!(
        trivial_merge(&permuted, SameChange::Accept).copied(),
        accept,
        "permuting adds/removes changed Accept result ({terms:?} -> {permuted:?})"
    );
    // The result, if any, is one of the adds.
    if let Some(v) = accept {
        crate::ensure!(terms.iter().step_by(2).any(|a| *a == v), "result {v} is not an add of {terms:?}");
    }
    // Simplification never changes resolvability (ties C01 to C02).
    let s = m.simplify();
    ensure_eq!(s.resolve_trivial(SameChange::Keep).copied(), keep, "simplify changed Keep result");
    ensure_eq!(s.resolve_trivial(SameChange::Accept).copied(), accept, "simplify changed Accept result");
    let cancels = {
        let s_len = s.as_slice().len();
        (terms.len() - s_len) / 2
    };
    let nontrivial = terms.len() >= 5 && (keep != accept || (accept.is_some() && cancels >= 2));
    Ok(Outcome::new(nontrivial)
        .class_if(keep != accept, "keep!=accept")
        .class_if(accept.is_none(), "unresolved")
        .class_if(terms.len() >= 11, "len>=11"))
}

fn all_lists(len: usize, alpha: u8) -> impl Iterator<Item = Case> {
    let total = (alpha as u64).pow(len as u32);
    (0..total).map(move |mut n| {
        let mut v = Vec::with_capacity(len);
        for _ in 0..len {
            v.push((n % alpha as u64) as u8);
            n /= alpha as u64;
        }
        // a fixed non-identity permutation seed: reverse-ish
        Case { terms: v, perm: vec![0; len] }
    })
}

pub fn run(report: &mut Report) {
    report.set_rule(
        "odd-length term lists: exhaustive over alphabet {0..3} up to length 9 (thorough: 11 over \
         3 values) and random up to length 21 over 2..8 values, both SameChange settings each; \
         non-trivial = length>=5 and (Keep/Accept differ, or resolves after >=2 cancellations); \
         distinct by term list + permutation",
    );
    let tier = report.tier;
    let lists: Box<dyn Iterator<Item = Case>> = match tier {
        crate::engine::runner::Tier::Quick => {
            Box::new((1..=9).step_by(2).flat_map(|len| all_lists(len, 4)))
        }
        crate::engine::runner::Tier::Thorough => Box::new(
            (1..=9)
                .step_by(2)
                .flat_map(|len| all_lists(len, 4))
                .chain(all_lists(11, 3))
                .chain(all_lists(7, 5)),
        ),
    };
    report.enumerate("exhaustive", true, lists, check);
    report.prop(
        "random",
        tier.pick(600_000, 6_000_000),
        || {
            (2u8..=8, 0usize..=10)
                .prop_flat_map(|(alpha, k)| {
                    (
                        prop::collection::vec(0..alpha, 2 * k + 1),
                        prop::collection::vec(any::<u16>(), 2 * k + 1),
                    )
                })
                .prop_map(|(terms, perm)| Case { terms, perm })
        },
        check,
    );
}
