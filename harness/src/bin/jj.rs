// The jj CLI built from /repo's working tree with the `verif-hooks` feature on
// (same entry point as /repo/cli/src/main.rs).
use jj_cli::cli_util::CliRunner;

fn main() -> std::process::ExitCode {
    CliRunner::init().version("0.44.0-verif").run().into()
}
