pub mod runner;
