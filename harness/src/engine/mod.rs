pub mod runner;
pub mod sched;
pub mod cli;
pub mod clihist;
