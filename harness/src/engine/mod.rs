pub mod runner;
pub mod sched;
