//! Seeded, sharded proptest runner with classification counters, shrinking to a
//! replay file, known-findings matching and evidence output.

use std::cell::RefCell;
use std::collections::BTreeMap;
use std::collections::BTreeSet;
use std::fmt::Debug;
use std::hash::Hash as _;
use std::hash::Hasher as _;
use std::panic::AssertUnwindSafe;
use std::path::Path;
use std::path::PathBuf;
use std::sync::Mutex;
use std::sync::atomic::AtomicBool;
use std::sync::atomic::Ordering;
use std::time::Instant;

use proptest::strategy::Strategy;
use proptest::test_runner::Config;
use proptest::test_runner::RngAlgorithm;
use proptest::test_runner::TestCaseError;
use proptest::test_runner::TestError;
use proptest::test_runner::TestRng;
use proptest::test_runner::TestRunner;
use serde::Serialize;
use serde::de::DeserializeOwned;
use serde_json::Value;
use serde_json::json;

/// Root of the verification tree (`/verif`; overridable with JJVERIF_ROOT for
/// development copies only — registered commands never set it).
pub fn verif_root() -> PathBuf {
    std::env::var_os("JJVERIF_ROOT")
        .map(PathBuf::from)
        .unwrap_or_else(|| PathBuf::from("/verif"))
}

#[derive(Clone, Copy, Debug, PartialEq, Eq)]
pub enum Tier {
    Quick,
    Thorough,
}

impl Tier {
    pub fn name(self) -> &'static str {
        match self {
            Self::Quick => "quick",
            Self::Thorough => "thorough",
        }
    }
    /// Picks the case count for the tier.
    pub fn pick(self, quick: u32, thorough: u32) -> u32 {
        match self {
            Self::Quick => quick,
            Self::Thorough => thorough,
        }
    }
    pub fn pick_usize(self, quick: usize, thorough: usize) -> usize {
        match self {
            Self::Quick => quick,
            Self::Thorough => thorough,
        }
    }
}

/// What a single executed case reports back on success.
#[derive(Default, Debug, Clone)]
pub struct Outcome {
    pub nontrivial: bool,
    pub classes: Vec<&'static str>,
}

impl Outcome {
    pub fn trivial() -> Self {
        Self::default()
    }
    pub fn new(nontrivial: bool) -> Self {
        Self {
            nontrivial,
            classes: vec![],
        }
    }
    pub fn class(mut self, name: &'static str) -> Self {
        self.classes.push(name);
        self
    }
    pub fn class_if(mut self, cond: bool, name: &'static str) -> Self {
        if cond {
            self.classes.push(name);
        }
        self
    }
}

/// A property violation found by an oracle.
#[derive(Debug, Clone)]
pub struct Violation {
    pub msg: String,
    /// Signature of a known finding this failure matches (decided by a predicate
    /// implemented next to the property), if any.
    pub signature: Option<&'static str>,
}

impl Violation {
    pub fn new(msg: impl Into<String>) -> Self {
        Self {
            msg: msg.into(),
            signature: None,
        }
    }
    pub fn known(signature: &'static str, msg: impl Into<String>) -> Self {
        Self {
            msg: msg.into(),
            signature: Some(signature),
        }
    }
}

impl From<String> for Violation {
    fn from(msg: String) -> Self {
        Self::new(msg)
    }
}
impl From<&str> for Violation {
    fn from(msg: &str) -> Self {
        Self::new(msg)
    }
}

pub type CheckResult = Result<Outcome, Violation>;

#[macro_export]
macro_rules! ensure {
    ($cond:expr, $($arg:tt)*) => {
        if !($cond) {
            return Err($crate::engine::runner::Violation::new(format!($($arg)*)));
        }
    };
}

#[macro_export]
macro_rules! ensure_eq {
    ($a:expr, $b:expr, $($arg:tt)*) => {
        {
            let (a, b) = (&$a, &$b);
            if a != b {
                return Err($crate::engine::runner::Violation::new(format!(
                    "{}: left={:?} right={:?}", format!($($arg)*), a, b)));
            }
        }
    };
}

#[derive(Debug, Clone, serde::Deserialize)]
pub struct KnownFinding {
    pub property: String,
    pub status: String,
    pub signature: String,
    pub what: String,
    #[serde(default)]
    pub commit: Option<String>,
    #[serde(default)]
    pub witness: Option<String>,
    pub line: String,
}

pub fn load_known_findings() -> Vec<KnownFinding> {
    let path = verif_root().join("known_findings.json");
    let Ok(text) = std::fs::read_to_string(&path) else {
        return vec![];
    };
    #[derive(serde::Deserialize)]
    struct File {
        findings: Vec<KnownFinding>,
    }
    match serde_json::from_str::<File>(&text) {
        Ok(file) => file.findings,
        Err(err) => {
            eprintln!("cannot parse {}: {err}", path.display());
            std::process::exit(2);
        }
    }
}

#[derive(Default)]
struct SubStats {
    evaluations: u64,
    nontrivial_hashes: BTreeSet<u64>,
    exhaustive: Option<bool>,
}

pub struct Report {
    pub id: &'static str,
    pub tier: Tier,
    pub seed: u64,
    pub jobs: usize,
    pub level: &'static str,
    pub rule: String,
    pub assumptions: Vec<String>,
    /// `Some((sub, case))` when replaying one stored case.
    replay: Option<(String, Value)>,
    replay_matched: bool,
    /// Strict mode: known-finding signatures are not tolerated (used by
    /// `--replay` of a file that is not a registered witness).
    known: Vec<KnownFinding>,
    start: Instant,
    subs: BTreeMap<String, SubStats>,
    classes: BTreeMap<String, u64>,
    samples: Vec<Value>,
    violations: Vec<(String, PathBuf)>,
    known_hits: BTreeMap<String, u64>,
    extra: BTreeMap<String, Value>,
    quiet: bool,
}

thread_local! {
    static PANIC_MSG: RefCell<Option<String>> = const { RefCell::new(None) };
    static CAPTURE_PANICS: std::cell::Cell<bool> = const { std::cell::Cell::new(false) };
}

pub fn install_panic_hook() {
    let default_hook = std::panic::take_hook();
    std::panic::set_hook(Box::new(move |info| {
        if CAPTURE_PANICS.with(|c| c.get()) {
            let msg = if let Some(s) = info.payload().downcast_ref::<&str>() {
                (*s).to_string()
            } else if let Some(s) = info.payload().downcast_ref::<String>() {
                s.clone()
            } else {
                "panic".to_string()
            };
            let loc = info
                .location()
                .map(|l| format!(" at {}:{}", l.file(), l.line()))
                .unwrap_or_default();
            PANIC_MSG.with(|m| *m.borrow_mut() = Some(format!("{msg}{loc}")));
        } else {
            default_hook(info);
        }
    }));
}

/// Runs `f`, turning a panic into a `Violation` (jj's own debug assertions act
/// as extra monitors).
pub fn catch<T>(f: impl FnOnce() -> Result<T, Violation>) -> Result<T, Violation> {
    let prev = CAPTURE_PANICS.with(|c| c.replace(true));
    let result = std::panic::catch_unwind(AssertUnwindSafe(f));
    CAPTURE_PANICS.with(|c| c.set(prev));
    match result {
        Ok(r) => r,
        Err(_) => {
            let msg = PANIC_MSG
                .with(|m| m.borrow_mut().take())
                .unwrap_or_else(|| "panic".into());
            Err(Violation::new(format!("panic: {msg}")))
        }
    }
}

fn hash_value(v: &Value) -> u64 {
    let mut h = std::collections::hash_map::DefaultHasher::new();
    v.to_string().hash(&mut h);
    h.finish()
}

fn hash_str(s: &str) -> u64 {
    // FNV-1a, stable across runs and platforms.
    let mut h: u64 = 0xcbf29ce484222325;
    for b in s.bytes() {
        h ^= u64::from(b);
        h = h.wrapping_mul(0x100000001b3);
    }
    h
}

fn truncate_value(v: &Value, budget: usize) -> Value {
    let s = v.to_string();
    if s.len() <= budget {
        v.clone()
    } else {
        let mut end = budget;
        while !s.is_char_boundary(end) {
            end -= 1;
        }
        json!({"truncated_json": &s[..end]})
    }
}

impl Report {
    pub fn new(id: &'static str, tier: Tier, seed: u64, replay: Option<PathBuf>) -> Self {
        let jobs = std::env::var("VERIF_JOBS")
            .ok()
            .and_then(|v| v.parse().ok())
            .unwrap_or(8);
        let replay = replay.map(|path| {
            let text = std::fs::read_to_string(&path).unwrap_or_else(|err| {
                eprintln!("cannot read replay file {}: {err}", path.display());
                std::process::exit(2);
            });
            let v: Value = serde_json::from_str(&text).unwrap_or_else(|err| {
                eprintln!("cannot parse replay file {}: {err}", path.display());
                std::process::exit(2);
            });
            let sub = v["sub"].as_str().unwrap_or("").to_string();
            (sub, v["case"].clone())
        });
        let known = load_known_findings()
            .into_iter()
            .filter(|k| k.property == id)
            .collect();
        Self {
            id,
            tier,
            seed,
            jobs,
            level: "exploration",
            rule: String::new(),
            assumptions: vec![],
            replay,
            replay_matched: false,
            known,
            start: Instant::now(),
            subs: BTreeMap::new(),
            classes: BTreeMap::new(),
            samples: vec![],
            violations: vec![],
            known_hits: BTreeMap::new(),
            extra: BTreeMap::new(),
            quiet: false,
        }
    }

    pub fn is_replay(&self) -> bool {
        self.replay.is_some()
    }

    pub fn set_rule(&mut self, rule: impl Into<String>) {
        self.rule = rule.into();
    }

    pub fn assume(&mut self, text: impl Into<String>) {
        self.assumptions.push(text.into());
    }

    pub fn set_level(&mut self, level: &'static str) {
        self.level = level;
    }

    pub fn set_extra(&mut self, key: &str, value: Value) {
        self.extra.insert(key.to_string(), value);
    }

    pub fn add_class(&mut self, name: &str, n: u64) {
        *self.classes.entry(name.to_string()).or_default() += n;
    }

    fn is_known_signature(&self, sig: &str) -> bool {
        self.known
            .iter()
            .any(|k| k.status == "known" && k.signature == sig)
    }

    fn seed_for(&self, sub: &str, worker: usize) -> [u8; 32] {
        let mut seed = [0u8; 32];
        let parts = [
            self.seed,
            hash_str(self.id),
            hash_str(sub),
            worker as u64,
        ];
        for (i, p) in parts.iter().enumerate() {
            seed[i * 8..i * 8 + 8].copy_from_slice(&p.to_le_bytes());
        }
        seed
    }

    fn record_violation(&mut self, sub: &str, case: &Value, msg: &str) {
        let doc = json!({
            "property": self.id,
            "sub": sub,
            "message": msg,
            "case": case,
        });
        let h = hash_value(&json!([sub, case]));
        let dir = verif_root().join("replays").join(self.id);
        std::fs::create_dir_all(&dir).ok();
        let path = dir.join(format!("{h:016x}.json"));
        std::fs::write(&path, serde_json::to_string_pretty(&doc).unwrap()).ok();
        println!("FAILURE property={} sub={sub}: {msg}", self.id);
        println!("VIOLATION property={} replay={}", self.id, path.display());
        self.violations.push((msg.to_string(), path));
    }

    fn record_known(&mut self, sig: &str) {
        *self.known_hits.entry(sig.to_string()).or_default() += 1;
    }

    /// Runs one property over generated cases (or replays a stored case).
    ///
    /// `make_strategy` is called once per worker thread. `check` must be a pure
    /// function of the case (and the code under test).
    pub fn prop<T, S, M, F>(&mut self, sub: &str, cases: u32, make_strategy: M, check: F)
    where
        T: Debug + Clone + Serialize + DeserializeOwned + Send + 'static,
        S: Strategy<Value = T>,
        M: Fn() -> S + Sync,
        F: Fn(&T) -> CheckResult + Sync,
    {
        if let Some((rsub, case)) = &self.replay {
            if rsub != sub {
                return;
            }
            self.replay_matched = true;
            let case_v = case.clone();
            let case: T = match serde_json::from_value(case_v.clone()) {
                Ok(c) => c,
                Err(err) => {
                    eprintln!("replay case does not deserialize for sub {sub}: {err}");
                    std::process::exit(2);
                }
            };
            let stats = self.subs.entry(sub.to_string()).or_default();
            stats.evaluations += 1;
            match catch(|| check(&case)) {
                Ok(out) => {
                    if out.nontrivial {
                        self.subs
                            .get_mut(sub)
                            .unwrap()
                            .nontrivial_hashes
                            .insert(hash_value(&case_v));
                    }
                    if !self.quiet {
                        println!("replay ok: property={} sub={sub}", self.id);
                    }
                }
                Err(v) => match v.signature {
                    Some(sig) if self.is_known_signature(sig) => {
                        println!("replay matches known finding {sig}: {}", v.msg);
                        self.record_known(sig);
                    }
                    _ => self.record_violation(sub, &case_v, &v.msg),
                },
            }
            return;
        }
        if !self.violations.is_empty() {
            // A violation has already been reported; do not keep searching.
            return;
        }

        struct Shared {
            evaluations: u64,
            nontrivial: BTreeSet<u64>,
            classes: BTreeMap<&'static str, u64>,
            samples: Vec<Value>,
            known_hits: BTreeMap<&'static str, u64>,
        }
        let shared = Mutex::new(Shared {
            evaluations: 0,
            nontrivial: BTreeSet::new(),
            classes: BTreeMap::new(),
            samples: vec![],
            known_hits: BTreeMap::new(),
        });
        let stop = AtomicBool::new(false);
        let failure: Mutex<Option<(usize, Value, String)>> = Mutex::new(None);
        // Quick-tier calibration (measured on an idle 16-core machine with tmpfs scratch, so that
        // each quick check does 20-60 s of fixed work): the per-property counts written in the
        // property modules were chosen on a heavily loaded machine; this table scales them.
        let cases = if self.tier == Tier::Quick {
            ((u64::from(cases) * u64::from(quick_scale_tenths(self.id)) / 10).max(1)) as u32
        } else {
            cases
        };
        // Development aid only (never set by registered commands): scale case counts.
        let cases = match std::env::var("JJVERIF_DEV_CASES_PCT").ok().and_then(|v| v.parse::<u64>().ok()) {
            Some(pct) => ((u64::from(cases) * pct / 100).max(1)) as u32,
            None => cases,
        };
        let jobs = self.jobs.max(1).min(cases.max(1) as usize);
        let known_sigs: Vec<String> = self
            .known
            .iter()
            .filter(|k| k.status == "known")
            .map(|k| k.signature.clone())
            .collect();
        let sample_cap = 3usize;
        std::thread::scope(|scope| {
            for worker in 0..jobs {
                let n = cases / jobs as u32 + u32::from((worker as u32) < cases % jobs as u32);
                let seed = self.seed_for(sub, worker);
                let shared = &shared;
                let stop = &stop;
                let failure = &failure;
                let check = &check;
                let make_strategy = &make_strategy;
                let known_sigs = &known_sigs;
                std::thread::Builder::new()
                    .stack_size(64 << 20)
                    .spawn_scoped(scope, move || {
                        if n == 0 {
                            return;
                        }
                        let strategy = make_strategy();
                        let config = Config {
                            cases: n,
                            failure_persistence: None,
                            max_shrink_iters: 4000,
                            // Shrinking a failing case that builds a repository per step is
                            // bounded by time as well (the reported case is then small, not
                            // necessarily minimal).
                            max_shrink_time: std::env::var("JJVERIF_MAX_SHRINK_MS")
                                .ok()
                                .and_then(|v| v.parse().ok())
                                .unwrap_or(240_000),
                            max_global_rejects: 65536,
                            ..Config::default()
                        };
                        let rng = TestRng::from_seed(RngAlgorithm::ChaCha, &seed);
                        let mut runner = TestRunner::new_with_rng(config, rng);
                        let failed_here = std::cell::Cell::new(false);
                        let result = runner.run(&strategy, |case| {
                            if !failed_here.get() && stop.load(Ordering::Relaxed) {
                                // Another worker failed: finish quickly.
                                return Ok(());
                            }
                            match catch(|| check(&case)) {
                                Ok(out) => {
                                    if !failed_here.get() {
                                        let v = serde_json::to_value(&case).unwrap();
                                        let mut sh = shared.lock().unwrap();
                                        sh.evaluations += 1;
                                        for c in &out.classes {
                                            *sh.classes.entry(c).or_default() += 1;
                                        }
                                        if out.nontrivial {
                                            let h = hash_value(&v);
                                            if sh.nontrivial.insert(h)
                                                && sh.samples.len() < sample_cap
                                            {
                                                sh.samples.push(truncate_value(&v, 4000));
                                            }
                                        }
                                    }
                                    Ok(())
                                }
                                Err(v) => {
                                    if let Some(sig) = v.signature
                                        && known_sigs.iter().any(|k| k == sig)
                                    {
                                        if !failed_here.get() {
                                            let mut sh = shared.lock().unwrap();
                                            sh.evaluations += 1;
                                            *sh.known_hits.entry(sig).or_default() += 1;
                                        }
                                        return Ok(());
                                    }
                                    if !failed_here.get() {
                                        failed_here.set(true);
                                        stop.store(true, Ordering::Relaxed);
                                        shared.lock().unwrap().evaluations += 1;
                                    }
                                    Err(TestCaseError::fail(v.msg))
                                }
                            }
                        });
                        match result {
                            Ok(()) => {}
                            Err(TestError::Fail(reason, case)) => {
                                let v = serde_json::to_value(&case).unwrap();
                                let mut f = failure.lock().unwrap();
                                if f.as_ref().is_none_or(|(w, _, _)| worker < *w) {
                                    *f = Some((worker, v, reason.message().to_string()));
                                }
                            }
                            Err(TestError::Abort(reason)) => {
                                eprintln!(
                                    "generator aborted (too many rejects) in sub: {}",
                                    reason.message()
                                );
                                std::process::exit(2);
                            }
                        }
                    })
                    .unwrap();
            }
        });
        let sh = shared.into_inner().unwrap();
        let stats = self.subs.entry(sub.to_string()).or_default();
        stats.evaluations += sh.evaluations;
        stats.nontrivial_hashes.extend(sh.nontrivial);
        for (c, n) in sh.classes {
            *self.classes.entry(c.to_string()).or_default() += n;
        }
        for s in sh.samples {
            if self.samples.len() < 6 {
                self.samples.push(json!({"sub": sub, "case": s}));
            }
        }
        for (sig, n) in sh.known_hits {
            *self.known_hits.entry(sig.to_string()).or_default() += n;
        }
        if let Some((_, case, msg)) = failure.into_inner().unwrap() {
            self.record_violation(sub, &case, &msg);
        }
    }

    /// Runs one property over an explicitly enumerated finite space. The first
    /// failing case (enumerations go from small to large) becomes the replay
    /// file.
    pub fn enumerate<T, I, F>(&mut self, sub: &str, exhaustive: bool, cases: I, check: F)
    where
        T: Debug + Clone + Serialize + DeserializeOwned + Send + 'static,
        I: IntoIterator<Item = T>,
        F: Fn(&T) -> CheckResult + Sync,
    {
        if self.replay.is_some() {
            self.prop(
                sub,
                1,
                || proptest::strategy::LazyJust::new(|| -> T { unreachable!() }),
                check,
            );
            return;
        }
        if !self.violations.is_empty() {
            return;
        }
        let mut evaluations = 0u64;
        let mut nontrivial = BTreeSet::new();
        let mut fail = None;
        for case in cases {
            evaluations += 1;
            match catch(|| check(&case)) {
                Ok(out) => {
                    for c in &out.classes {
                        *self.classes.entry(c.to_string()).or_default() += 1;
                    }
                    if out.nontrivial {
                        let v = serde_json::to_value(&case).unwrap();
                        if nontrivial.insert(hash_value(&v)) && self.samples.len() < 6 && nontrivial.len() <= 2 {
                            self.samples
                                .push(json!({"sub": sub, "case": truncate_value(&v, 4000)}));
                        }
                    }
                }
                Err(v) => {
                    if let Some(sig) = v.signature
                        && self.is_known_signature(sig)
                    {
                        self.record_known(sig);
                        continue;
                    }
                    fail = Some((serde_json::to_value(&case).unwrap(), v.msg));
                    break;
                }
            }
        }
        let stats = self.subs.entry(sub.to_string()).or_default();
        stats.evaluations += evaluations;
        stats.nontrivial_hashes.extend(nontrivial);
        stats.exhaustive = Some(exhaustive && fail.is_none());
        if let Some((case, msg)) = fail {
            self.record_violation(sub, &case, &msg);
        }
    }

    /// Parallel variant of `enumerate` for expensive cases; the reported
    /// failing case is the one with the smallest index.
    pub fn enumerate_par<T, F>(&mut self, sub: &str, exhaustive: bool, cases: Vec<T>, check: F)
    where
        T: Debug + Clone + Serialize + DeserializeOwned + Send + Sync + 'static,
        F: Fn(&T) -> CheckResult + Sync,
    {
        if self.replay.is_some() {
            self.enumerate(sub, exhaustive, cases, check);
            return;
        }
        if !self.violations.is_empty() {
            return;
        }
        let jobs = self.jobs.max(1);
        let next = std::sync::atomic::AtomicUsize::new(0);
        struct Res {
            outcomes: Vec<(usize, Result<Outcome, Violation>)>,
        }
        let res = Mutex::new(Res { outcomes: vec![] });
        std::thread::scope(|scope| {
            for _ in 0..jobs {
                let next = &next;
                let cases = &cases;
                let check = &check;
                let res = &res;
                std::thread::Builder::new()
                    .stack_size(64 << 20)
                    .spawn_scoped(scope, move || {
                        loop {
                            let i = next.fetch_add(1, Ordering::Relaxed);
                            if i >= cases.len() {
                                break;
                            }
                            let r = catch(|| check(&cases[i]));
                            res.lock().unwrap().outcomes.push((i, r));
                        }
                    })
                    .unwrap();
            }
        });
        let mut outcomes = res.into_inner().unwrap().outcomes;
        outcomes.sort_by_key(|(i, _)| *i);
        let mut nontrivial = BTreeSet::new();
        let mut fail = None;
        let evaluations = outcomes.len() as u64;
        for (i, r) in outcomes {
            match r {
                Ok(out) => {
                    for c in &out.classes {
                        *self.classes.entry(c.to_string()).or_default() += 1;
                    }
                    if out.nontrivial {
                        let v = serde_json::to_value(&cases[i]).unwrap();
                        if nontrivial.insert(hash_value(&v)) && self.samples.len() < 6 && nontrivial.len() <= 2 {
                            self.samples
                                .push(json!({"sub": sub, "case": truncate_value(&v, 4000)}));
                        }
                    }
                }
                Err(v) => {
                    if let Some(sig) = v.signature
                        && self.is_known_signature(sig)
                    {
                        self.record_known(sig);
                        continue;
                    }
                    if fail.is_none() {
                        fail = Some((serde_json::to_value(&cases[i]).unwrap(), v.msg));
                    }
                }
            }
        }
        let stats = self.subs.entry(sub.to_string()).or_default();
        stats.evaluations += evaluations;
        stats.nontrivial_hashes.extend(nontrivial);
        stats.exhaustive = Some(exhaustive && fail.is_none());
        if let Some((case, msg)) = fail {
            self.record_violation(sub, &case, &msg);
        }
    }

    pub fn has_violation(&self) -> bool {
        !self.violations.is_empty()
    }

    /// Writes the evidence file, prints the summary and returns the exit code.
    pub fn finish(self) -> i32 {
        if let Some((sub, _)) = &self.replay
            && !self.replay_matched
        {
            eprintln!("replay file names unknown sub-check {sub:?} for {}", self.id);
            return 2;
        }
        let evaluations: u64 = self.subs.values().map(|s| s.evaluations).sum();
        let distinct: u64 = self
            .subs
            .values()
            .map(|s| s.nontrivial_hashes.len() as u64)
            .sum();
        // KNOWN-FINDING lines: one per listed known finding whose signature was
        // hit by this run (witness replay or generated case).
        for k in &self.known {
            if k.status == "known" && self.known_hits.contains_key(&k.signature) {
                println!("KNOWN-FINDING: property={} {}", self.id, k.what);
            }
        }
        let subs: Vec<Value> = self
            .subs
            .iter()
            .map(|(name, s)| {
                json!({
                    "name": name,
                    "evaluations": s.evaluations,
                    "distinct_nontrivial": s.nontrivial_hashes.len(),
                    "exhaustive": s.exhaustive,
                })
            })
            .collect();
        let all_exhaustive =
            !self.subs.is_empty() && self.subs.values().all(|s| s.exhaustive == Some(true));
        let mut coverage = serde_json::Map::new();
        coverage.insert("evaluations".into(), json!(evaluations));
        coverage.insert("distinct_nontrivial".into(), json!(distinct));
        coverage.insert("rule".into(), json!(self.rule));
        coverage.insert("samples".into(), json!(self.samples));
        coverage.insert("classes".into(), json!(self.classes));
        coverage.insert("subchecks".into(), json!(subs));
        coverage.insert("exhaustive".into(), json!(all_exhaustive));
        coverage.insert(
            "excluded_known".into(),
            json!(self.known_hits.values().sum::<u64>()),
        );
        for (k, v) in &self.extra {
            coverage.insert(k.clone(), v.clone());
        }
        let wall = self.start.elapsed().as_secs_f64();
        let evidence = json!({
            "property_id": self.id,
            "tier": self.tier.name(),
            "seed": self.seed,
            "level": self.level,
            "coverage": coverage,
            "assumptions": self.assumptions,
            "wall_s": wall,
            "violations": self.violations.len(),
        });
        if self.replay.is_none() {
            let dir = std::env::var_os("VERIF_EVIDENCE_DIR")
                .map(PathBuf::from)
                .unwrap_or_else(|| verif_root().join("evidence"));
            std::fs::create_dir_all(&dir).ok();
            let path = dir.join(format!("{}.json", self.id));
            if let Err(err) = std::fs::write(&path, serde_json::to_string_pretty(&evidence).unwrap())
            {
                eprintln!("cannot write evidence {}: {err}", path.display());
                return 2;
            }
        }
        println!(
            "{} tier={} seed={} evaluations={} distinct_nontrivial={} known_hits={} violations={} wall={:.1}s",
            self.id,
            self.tier.name(),
            self.seed,
            evaluations,
            distinct,
            self.known_hits.values().sum::<u64>(),
            self.violations.len(),
            wall
        );
        if self.violations.is_empty() { 0 } else { 1 }
    }
}

/// Quick-tier multiplier (in tenths) applied to the case counts of `Report::prop`.
fn quick_scale_tenths(id: &str) -> u32 {
    match id {
        "C01" | "C02" => 50,
        "C03" | "C04" | "C06" | "C08" | "C16" | "C19" | "C21" | "C26" | "C29" | "C31" | "C33" | "C34"
        | "C35" | "C39" => 80,
        "C05" | "C18" | "C20" => 100,
        "C07" | "C11" | "C17" | "C22" | "C24" | "C28" | "C32" | "C38" | "C46" => 60,
        "C25" | "C30" | "C44" | "C14" => 50,
        "C10" | "C27" | "C37" | "C09" | "C41" => 40,
        "C12" | "C13" | "C23" | "C36" | "C43" => 30,
        "C40" => 60,
        "C42" => 20,
        "C45" => 15,
        _ => 10,
    }
}

/// Monotone index mapping for shrinking-friendly selection: `raw` is a u16
/// drawn by proptest; returns an index in `0..len`.
pub fn pick(raw: u16, len: usize) -> usize {
    debug_assert!(len > 0);
    ((raw as usize) * len) >> 16
}

/// A scratch directory under $VERIF_SCRATCH (default /verif/scratch).
pub fn scratch_root() -> PathBuf {
    let root = std::env::var_os("VERIF_SCRATCH")
        .map(PathBuf::from)
        .unwrap_or_else(|| verif_root().join("scratch"));
    std::fs::create_dir_all(&root).ok();
    root
}

pub fn new_scratch_dir(prefix: &str) -> tempfile::TempDir {
    tempfile::Builder::new()
        .prefix(prefix)
        .tempdir_in(scratch_root())
        .expect("scratch dir")
}
