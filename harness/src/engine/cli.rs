//! Driver for the real `jj` CLI (built from /repo with hooks on as
//! `harness/target/debug/jj`) as a subprocess with a deterministic environment
//! (mirrors /repo/cli/tests/common/test_environment.rs), plus in-process
//! inspection helpers through jj-lib.

use std::cell::Cell;
use std::collections::BTreeMap;
use std::ffi::OsString;
use std::path::Path;
use std::path::PathBuf;
use std::process::Command;
use std::process::Stdio;
use std::sync::Arc;

use jj_lib::config::ConfigLayer;
use jj_lib::config::ConfigSource;
use jj_lib::repo::ReadonlyRepo;
use jj_lib::repo::RepoLoader;

use jj_lib::settings::UserSettings;
use pollster::FutureExt as _;
use tempfile::TempDir;

#[derive(Debug, Clone)]
pub struct Output {
    pub code: Option<i32>,
    pub signal: Option<i32>,
    pub stdout: String,
    pub stderr: String,
}

impl Output {
    pub fn success(&self) -> bool {
        self.code == Some(0)
    }
    pub fn brief(&self) -> String {
        format!(
            "code={:?} signal={:?} stderr={:?}",
            self.code,
            self.signal,
            self.stderr.chars().take(600).collect::<String>()
        )
    }
}

pub fn jj_bin() -> PathBuf {
    if let Some(p) = std::env::var_os("JJVERIF_JJ_BIN") {
        return PathBuf::from(p);
    }
    let exe = std::env::current_exe().expect("current exe");
    exe.parent().unwrap().join("jj")
}

pub struct CliEnv {
    _dir: TempDir,
    pub root: PathBuf,
    pub home: PathBuf,
    pub tmp: PathBuf,
    pub config_dir: PathBuf,
    command_number: Cell<i64>,
    pub extra_env: BTreeMap<OsString, OsString>,
}

impl CliEnv {
    pub fn new(prefix: &str) -> Self {
        let dir = crate::engine::runner::new_scratch_dir(prefix);
        let root = dir.path().canonicalize().unwrap();
        let home = root.join("home");
        let tmp = root.join("tmp");
        let config_dir = root.join("config");
        for d in [&home, &tmp, &config_dir] {
            std::fs::create_dir(d).unwrap();
        }
        let env = Self {
            _dir: dir,
            root,
            home,
            tmp,
            config_dir,
            command_number: Cell::new(0),
            extra_env: BTreeMap::new(),
        };
        env.add_config(
            "base",
            r#"
[git]
colocate = false

[ui]
paginate = "never"
color = "never"
"#,
        );
        env
    }

    pub fn add_config(&self, name: &str, text: &str) {
        std::fs::write(self.config_dir.join(format!("{name}.toml")), text).unwrap();
    }

    pub fn command_number(&self) -> i64 {
        self.command_number.get()
    }

    /// Rewinds/sets the command counter (the next command gets `n + 1`), so that a
    /// command can be re-run with an identical environment.
    pub fn set_command_number(&self, n: i64) {
        self.command_number.set(n);
    }

    /// Builds the command without running it (the caller may add env vars).
    pub fn jj_cmd(&self, cwd: &Path, args: &[&str]) -> Command {
        let mut cmd = Command::new(jj_bin());
        cmd.current_dir(cwd);
        cmd.env_clear();
        cmd.env("COLUMNS", "100");
        cmd.env("RUST_BACKTRACE", "0");
        // Thousands of short-lived jj processes: keep their rayon pools small (does not
        // change jj's results, only how many idle worker threads each process spawns).
        cmd.env("RAYON_NUM_THREADS", "2");
        cmd.env("PATH", std::env::var_os("PATH").unwrap_or_default());
        cmd.env("HOME", &self.home);
        cmd.env("TMPDIR", &self.tmp);
        cmd.env("GIT_CONFIG_SYSTEM", "/dev/null");
        cmd.env("GIT_CONFIG_GLOBAL", "/dev/null");
        cmd.env("GIT_CONFIG_KEY_0", "init.defaultBranch");
        cmd.env("GIT_CONFIG_VALUE_0", "master");
        cmd.env("GIT_CONFIG_COUNT", "1");
        cmd.env("JJ_CONFIG", &self.config_dir);
        cmd.env("JJ_USER", "Test User");
        cmd.env("JJ_EMAIL", "test.user@example.com");
        cmd.env("JJ_OP_HOSTNAME", "host.example.com");
        cmd.env("JJ_OP_USERNAME", "test-username");
        cmd.env("JJ_TZ_OFFSET_MINS", "660");
        let n = self.command_number.get() + 1;
        self.command_number.set(n);
        cmd.env("JJ_RANDOMNESS_SEED", n.to_string());
        // 2001-02-03T04:05:06+07:00 plus n seconds
        let base = 981_147_906i64 + n;
        let ts = chrono::DateTime::from_timestamp(base, 0)
            .unwrap()
            .with_timezone(&chrono::FixedOffset::east_opt(7 * 3600).unwrap())
            .to_rfc3339();
        cmd.env("JJ_TIMESTAMP", &ts);
        cmd.env("JJ_OP_TIMESTAMP", &ts);
        for (k, v) in &self.extra_env {
            cmd.env(k, v);
        }
        cmd.args(args);
        cmd.stdin(Stdio::null());
        cmd
    }

    pub fn run_cmd(mut cmd: Command) -> Output {
        let out = cmd.output().expect("spawn jj");
        #[cfg(unix)]
        let signal = {
            use std::os::unix::process::ExitStatusExt as _;
            out.status.signal()
        };
        Output {
            code: out.status.code(),
            signal,
            stdout: String::from_utf8_lossy(&out.stdout).into_owned(),
            stderr: String::from_utf8_lossy(&out.stderr).into_owned(),
        }
    }

    pub fn jj(&self, cwd: &Path, args: &[&str]) -> Output {
        Self::run_cmd(self.jj_cmd(cwd, args))
    }

    /// Runs a `git` command with the hermetic environment.
    pub fn git(&self, cwd: &Path, args: &[&str]) -> Output {
        let mut cmd = Command::new("git");
        cmd.current_dir(cwd);
        cmd.env_clear();
        cmd.env("PATH", std::env::var_os("PATH").unwrap_or_default());
        cmd.env("HOME", &self.home);
        cmd.env("GIT_CONFIG_SYSTEM", "/dev/null");
        cmd.env("GIT_CONFIG_GLOBAL", "/dev/null");
        cmd.env("GIT_CONFIG_KEY_0", "init.defaultBranch");
        cmd.env("GIT_CONFIG_VALUE_0", "master");
        cmd.env("GIT_CONFIG_COUNT", "1");
        cmd.env("GIT_AUTHOR_NAME", "Git User");
        cmd.env("GIT_AUTHOR_EMAIL", "git@example.com");
        cmd.env("GIT_COMMITTER_NAME", "Git User");
        cmd.env("GIT_COMMITTER_EMAIL", "git@example.com");
        cmd.env("GIT_AUTHOR_DATE", "2001-02-03T04:05:06+07:00");
        cmd.env("GIT_COMMITTER_DATE", "2001-02-03T04:05:06+07:00");
        cmd.args(args);
        cmd.stdin(Stdio::null());
        Self::run_cmd(cmd)
    }
}

/// Settings for in-process inspection of a repo the CLI created.
pub fn inspect_settings() -> UserSettings {
    let mut config = testutils::base_user_config();
    config.add_layer(
        ConfigLayer::parse(ConfigSource::User, "git.colocate = false\n").unwrap(),
    );
    UserSettings::from_config(config).unwrap()
}

/// Loader for `<workspace>/.jj/repo` (follows the `repo` pointer file of
/// secondary workspaces).
pub fn repo_dir_of_workspace(workspace_root: &Path) -> PathBuf {
    let repo = workspace_root.join(".jj").join("repo");
    if repo.is_file() {
        let text = std::fs::read_to_string(&repo).unwrap();
        let p = PathBuf::from(text.trim());
        if p.is_absolute() {
            p
        } else {
            workspace_root.join(".jj").join(p).canonicalize().unwrap()
        }
    } else {
        repo
    }
}

pub fn loader_for(repo_dir: &Path) -> Result<RepoLoader, String> {
    testutils::hermetic_git();
    let settings = inspect_settings();
    let factories = jj_lib::default_backend_factories::default_backend_factories();
    RepoLoader::init_from_file_system(&settings, repo_dir, &factories)
        .map_err(|e| format!("cannot load repo at {}: {e:?}", repo_dir.display()))
}

/// Lists the operation heads of a repo directory without resolving them.
pub fn op_head_ids(repo_dir: &Path) -> Vec<String> {
    let dir = repo_dir.join("op_heads").join("heads");
    let mut v: Vec<String> = std::fs::read_dir(dir)
        .map(|rd| {
            rd.filter_map(|e| e.ok())
                .map(|e| e.file_name().to_string_lossy().into_owned())
                .filter(|n| n.chars().all(|c| c.is_ascii_hexdigit()))
                .collect()
        })
        .unwrap_or_default();
    v.sort();
    v
}

/// Loads the repo at the given operation id (hex) without touching op heads.
pub fn load_at_op(loader: &RepoLoader, op_hex: &str) -> Result<Arc<ReadonlyRepo>, String> {
    let id = jj_lib::op_store::OperationId::try_from_hex(op_hex)
        .ok_or_else(|| format!("bad op id {op_hex}"))?;
    let data = loader
        .op_store()
        .read_operation(&id)
        .block_on()
        .map_err(|e| format!("read op {op_hex}: {e}"))?;
    let op = jj_lib::operation::Operation::new(loader.op_store().clone(), id, data);
    loader
        .load_at(&op)
        .block_on()
        .map_err(|e| format!("load at {op_hex}: {e:?}"))
}

/// A snapshot of a directory tree on disk: path -> (kind, bytes/target, exec).
#[derive(Debug, Clone, PartialEq, Eq, PartialOrd, Ord)]
pub enum DiskEntry {
    File { content: Vec<u8>, exec: bool },
    Symlink(String),
}

pub type DiskState = BTreeMap<String, DiskEntry>;

/// Reads every file/symlink below `root` except reserved directories (`.jj`,
/// `.git`) at any level.
pub fn read_disk(root: &Path) -> DiskState {
    fn walk(root: &Path, dir: &Path, out: &mut DiskState) {
        let Ok(rd) = std::fs::read_dir(dir) else { return };
        let mut entries: Vec<_> = rd.filter_map(|e| e.ok()).collect();
        entries.sort_by_key(|e| e.file_name());
        for e in entries {
            let name = e.file_name();
            if name == ".jj" || name == ".git" {
                continue;
            }
            let path = e.path();
            let Ok(meta) = std::fs::symlink_metadata(&path) else { continue };
            let rel = path
                .strip_prefix(root)
                .unwrap()
                .to_string_lossy()
                .replace('\\', "/");
            if meta.file_type().is_symlink() {
                let target = std::fs::read_link(&path)
                    .map(|t| t.to_string_lossy().into_owned())
                    .unwrap_or_default();
                out.insert(rel, DiskEntry::Symlink(target));
            } else if meta.is_dir() {
                walk(root, &path, out);
            } else {
                use std::os::unix::fs::PermissionsExt as _;
                let exec = meta.permissions().mode() & 0o111 != 0;
                let content = std::fs::read(&path).unwrap_or_default();
                out.insert(rel, DiskEntry::File { content, exec });
            }
        }
    }
    let mut out = DiskState::new();
    walk(root, root, &mut out);
    out
}
