//! Single-threaded cooperative executor that owns the schedule (DESIGN §5 C14).
//!
//! Actors are futures polled explicitly; they suspend only at jj's
//! feature-gated `verif_hooks::yield_point`s (which record a label in a
//! thread-local). The executor decides which actor runs next, so a schedule is
//! an ordinary generated/enumerated value.

use std::future::Future;
use std::pin::Pin;
use std::task::Context;
use std::task::Poll;
use std::task::Waker;

use jj_lib::verif_hooks;

pub enum Step<T> {
    /// Suspended at the named yield point.
    Yielded(&'static str),
    Done(T),
}

pub struct Actor<'a, T> {
    fut: Option<Pin<Box<dyn Future<Output = T> + 'a>>>,
    pub started: bool,
    pub last_label: Option<&'static str>,
    /// Spinning on a lock somebody else holds.
    pub blocked: bool,
    pub result: Option<T>,
    pub crashed: bool,
}

impl<'a, T> Actor<'a, T> {
    pub fn new(fut: impl Future<Output = T> + 'a) -> Self {
        Self {
            fut: Some(Box::pin(fut)),
            started: false,
            last_label: None,
            blocked: false,
            result: None,
            crashed: false,
        }
    }

    pub fn is_live(&self) -> bool {
        self.fut.is_some()
    }

    /// Runs the actor up to its next yield point. Returns `Err` if the actor
    /// stays pending without reaching a yield point (an external wake-up the
    /// schedule does not own) — the caller treats that as inconclusive.
    pub fn step(&mut self) -> Result<Step<()>, String> {
        let fut = self.fut.as_mut().expect("live actor");
        self.started = true;
        verif_hooks::set_scheduler_attached(true);
        verif_hooks::take_last_yield();
        let mut cx = Context::from_waker(Waker::noop());
        let mut spins = 0u32;
        let out = loop {
            match fut.as_mut().poll(&mut cx) {
                Poll::Ready(v) => {
                    self.result = Some(v);
                    self.fut = None;
                    break Ok(Step::Done(()));
                }
                Poll::Pending => {
                    if let Some(label) = verif_hooks::take_last_yield() {
                        let repeated_lock =
                            label == "op_heads.lock" && self.last_label == Some("op_heads.lock");
                        self.blocked = repeated_lock;
                        self.last_label = Some(label);
                        break Ok(Step::Yielded(label));
                    }
                    // Pending without a recorded yield point: keep polling this
                    // same actor so that no store step gets reordered.
                    spins += 1;
                    if spins > 200_000 {
                        break Err("actor pending without reaching a yield point".to_string());
                    }
                    std::thread::yield_now();
                }
            }
        };
        verif_hooks::set_scheduler_attached(false);
        out
    }

    /// Crash: the future is dropped on the spot (locks it holds are released,
    /// as the kernel would do for a killed process).
    pub fn crash(&mut self) {
        self.fut = None;
        self.crashed = true;
    }
}
