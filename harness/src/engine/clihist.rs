//! Shared pieces for properties that drive generated histories through the real
//! `jj` CLI (C09, C40, C41, C42, C45): file edits, revision selectors, state
//! capture through jj-lib.

use std::collections::BTreeMap;
use std::collections::BTreeSet;
use std::path::Path;

use jj_lib::backend::CommitId;
use jj_lib::object_id::ObjectId as _;
use jj_lib::op_store::RefTarget;
use jj_lib::repo::ReadonlyRepo;
use jj_lib::repo::Repo as _;
use jj_lib::repo::RepoLoader;
use pollster::FutureExt as _;
use proptest::prelude::*;
use serde::Deserialize;
use serde::Serialize;

use crate::engine::cli::DiskEntry;
use crate::engine::cli::DiskState;
use crate::engine::runner::pick;

pub const PATHS: &[&str] = &["a", "b", "d/e", "d/f", "d/g/h", "c"];
pub const CONTENTS: &[&str] = &[
    "",
    "x\n",
    "1\n2\n3\n",
    "1\nX\n3\n",
    "other\n",
    "1\n2\n3\n4\n",
    "1\n2\nY\n",
    "0\n1\n2\n3\n",
];

#[derive(Debug, Clone, Serialize, Deserialize)]
pub enum Edit {
    Write(u16, u16),
    Delete(u16),
    Chmod(u16),
    Symlink(u16),
}

pub fn edit() -> impl Strategy<Value = Edit> {
    prop_oneof![
        7 => (any::<u16>(), any::<u16>()).prop_map(|(p, c)| Edit::Write(p, c)),
        2 => any::<u16>().prop_map(Edit::Delete),
        1 => any::<u16>().prop_map(Edit::Chmod),
        1 => any::<u16>().prop_map(Edit::Symlink),
    ]
}

fn remove_any(path: &Path) {
    if path.symlink_metadata().is_ok_and(|m| m.is_dir()) {
        std::fs::remove_dir_all(path).ok();
    } else if path.symlink_metadata().is_ok() {
        std::fs::remove_file(path).ok();
    }
}

pub fn apply_edit(ws: &Path, edit: &Edit) {
    match edit {
        Edit::Write(p, c) => {
            let path = ws.join(PATHS[pick(*p, PATHS.len())]);
            // a file/symlink may stand where we want a directory
            let mut cur = ws.to_path_buf();
            let rel = path.strip_prefix(ws).unwrap().to_path_buf();
            let comps: Vec<_> = rel.components().collect();
            for comp in &comps[..comps.len() - 1] {
                cur.push(comp);
                if cur.symlink_metadata().is_ok_and(|m| !m.is_dir()) {
                    std::fs::remove_file(&cur).ok();
                }
                std::fs::create_dir(&cur).ok();
            }
            remove_any(&path);
            std::fs::write(&path, CONTENTS[pick(*c, CONTENTS.len())]).ok();
        }
        Edit::Delete(p) => {
            let path = ws.join(PATHS[pick(*p, PATHS.len())]);
            remove_any(&path);
        }
        Edit::Chmod(p) => {
            use std::os::unix::fs::PermissionsExt as _;
            let path = ws.join(PATHS[pick(*p, PATHS.len())]);
            if let Ok(meta) = std::fs::symlink_metadata(&path)
                && meta.is_file()
            {
                let mode = meta.permissions().mode();
                std::fs::set_permissions(&path, std::fs::Permissions::from_mode(mode ^ 0o111)).ok();
            }
        }
        Edit::Symlink(p) => {
            let path = ws.join(PATHS[pick(*p, PATHS.len())]);
            if path.symlink_metadata().is_ok_and(|m| m.is_dir()) {
                return;
            }
            if path.parent().is_some_and(|d| d.is_dir()) {
                std::fs::remove_file(&path).ok();
                std::os::unix::fs::symlink("a", &path).ok();
            }
        }
    }
}

/// Revision selectors that resolve (mostly) to a single commit in generated
/// repos. `{ws}` is replaced by the other workspace's name.
pub const REVS: &[&str] = &[
    "@",
    "@-",
    "@--",
    "root()",
    "latest(heads(all()))",
    "latest(all() ~ @)",
    "roots(root()+)",
    "latest(bookmarks())",
    "{ws}@",
    "latest(@::)",
];

pub fn rev(raw: u16, other_ws: &str) -> String {
    REVS[pick(raw, REVS.len())].replace("{ws}", other_ws)
}

/// The "repo + remote-tracking" portion of a view, as comparable data.
#[derive(Debug, Clone, PartialEq, Eq, Serialize, Deserialize)]
pub struct ViewState {
    pub heads: BTreeSet<String>,
    pub bookmarks: BTreeMap<String, Vec<Option<String>>>,
    pub tags: BTreeMap<String, Vec<Option<String>>>,
    pub remote_bookmarks: BTreeMap<String, (Vec<Option<String>>, bool)>,
    pub wc: BTreeMap<String, String>,
}

fn target_ids(target: &RefTarget) -> Vec<Option<String>> {
    target
        .as_merge()
        .iter()
        .map(|id: &Option<CommitId>| id.as_ref().map(|c| c.hex()))
        .collect()
}

pub fn view_state(repo: &ReadonlyRepo) -> ViewState {
    let view = repo.view();
    ViewState {
        heads: view.heads().iter().map(|h| h.hex()).collect(),
        bookmarks: view
            .local_bookmarks()
            .map(|(name, target)| (name.as_str().to_string(), target_ids(target)))
            .collect(),
        tags: view
            .local_tags()
            .map(|(name, target)| (name.as_str().to_string(), target_ids(target)))
            .collect(),
        remote_bookmarks: view
            .all_remote_bookmarks()
            .map(|(symbol, remote_ref)| {
                (
                    format!("{}@{}", symbol.name.as_str(), symbol.remote.as_str()),
                    (target_ids(&remote_ref.target), remote_ref.is_tracked()),
                )
            })
            .collect(),
        wc: view
            .wc_commit_ids()
            .iter()
            .map(|(name, id)| (name.as_str().to_string(), id.hex()))
            .collect(),
    }
}

/// Reads the tree of a commit into disk-state form. Conflicted paths are
/// returned separately (they materialise as marker files on disk).
pub fn commit_tree_state(
    repo: &ReadonlyRepo,
    commit_id: &CommitId,
) -> Result<(DiskState, BTreeSet<String>), String> {
    let store = repo.store().clone();
    let commit = store.get_commit(commit_id).map_err(|e| e.to_string())?;
    let tree = commit.tree();
    let mut state = DiskState::new();
    let mut conflicted = BTreeSet::new();
    for (path, value) in tree.entries() {
        let value = value.map_err(|e| e.to_string())?;
        let key = path.as_internal_file_string().to_string();
        match value.as_resolved() {
            Some(resolved) => {
                match crate::model::tree::read_value(&store, &path, resolved)? {
                    Some(crate::model::tree::Entry::File { content, exec }) => {
                        state.insert(key, DiskEntry::File { content: content.0, exec });
                    }
                    Some(crate::model::tree::Entry::Symlink(t)) => {
                        state.insert(key, DiskEntry::Symlink(t));
                    }
                    None => {}
                }
            }
            None => {
                conflicted.insert(key);
            }
        }
    }
    Ok((state, conflicted))
}

/// All operation ids stored in the op store directory (not only ancestors of
/// the current head).
pub fn all_op_ids(repo_dir: &Path) -> Vec<String> {
    let dir = repo_dir.join("op_store").join("operations");
    let mut v: Vec<String> = std::fs::read_dir(dir)
        .map(|rd| {
            rd.filter_map(|e| e.ok())
                .map(|e| e.file_name().to_string_lossy().into_owned())
                .filter(|n| !n.is_empty() && n.chars().all(|c| c.is_ascii_hexdigit()))
                .collect()
        })
        .unwrap_or_default();
    v.sort();
    v
}

/// Working-copy commit ids recorded for `workspace` by any stored operation.
pub fn wc_commits_of_all_ops(
    loader: &RepoLoader,
    repo_dir: &Path,
    workspace: &str,
) -> BTreeSet<CommitId> {
    let mut out = BTreeSet::new();
    for op_hex in all_op_ids(repo_dir) {
        let Some(id) = jj_lib::op_store::OperationId::try_from_hex(&op_hex) else { continue };
        let Ok(op) = loader.op_store().read_operation(&id).block_on() else { continue };
        let Ok(view) = loader.op_store().read_view(&op.view_id).block_on() else { continue };
        for (name, commit_id) in &view.wc_commit_ids {
            if name.as_str() == workspace {
                out.insert(commit_id.clone());
            }
        }
    }
    out
}
