#![no_main]
//! C36: parsing any input as a template (with an alias map drawn from the input)
//! returns; a panic or stack overflow crashes the target.
use libfuzzer_sys::fuzz_target;

fuzz_target!(|data: &[u8]| {
    jjverif_fuzz::run(jjverif_fuzz::expr_parse::Lang::Template, data);
});
