#![no_main]
//! C32 (skeleton): workspace path conversion is confined. Layout: `cwd:u8`
//! selects the working directory, the rest is the user-supplied path (lossy
//! UTF-8). Oracle inside the target: a successfully parsed repository path has no
//! empty, `.` or `..` component; when it converts back to a file-system path, that
//! path lies under the workspace root, has no `..` component and parses to the
//! same repository path again.
use std::path::Component;
use std::path::Path;

use arbitrary::Unstructured;
use jj_lib::repo_path::RepoPathBuf;
use libfuzzer_sys::fuzz_target;

const BASE: &str = "/ws/repo";
const CWDS: &[&str] = &["/ws/repo", "/ws/repo/sub", "/ws/repo/sub/dir", "/ws", "/", "/ws/repository"];

fuzz_target!(|data: &[u8]| {
    let mut u = Unstructured::new(data);
    let cwd = CWDS[usize::from(u.arbitrary::<u8>().unwrap_or(0)) % CWDS.len()];
    let input = String::from_utf8_lossy(u.take_rest()).into_owned();
    if input.contains('\0') {
        return;
    }
    let base = Path::new(BASE);
    let Ok(repo_path) = RepoPathBuf::parse_fs_path(Path::new(cwd), base, &input) else {
        return;
    };
    for component in repo_path.components() {
        let name = component.as_internal_str();
        assert!(!name.is_empty() && name != "." && name != "..", "bad component {name:?} from {input:?}");
        assert!(!name.contains('/'), "separator inside component {name:?} from {input:?}");
    }
    if let Ok(fs_path) = repo_path.to_fs_path(base) {
        assert!(fs_path.starts_with(base), "{fs_path:?} escapes the workspace (input {input:?})");
        assert!(
            fs_path.components().all(|c| matches!(c, Component::RootDir | Component::Normal(_))),
            "{fs_path:?} is not normalised (input {input:?})"
        );
        let again = RepoPathBuf::parse_fs_path(base, base, &fs_path);
        assert_eq!(again.as_ref().ok(), Some(&repo_path), "round trip of {input:?} via {fs_path:?}");
    }
});
