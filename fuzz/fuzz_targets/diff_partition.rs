#![no_main]
//! C03 (skeleton): content diffs partition their inputs. Layout: `mode:u8`, then
//! up to four inputs separated by 0xFF bytes. Oracle inside the target
//! (exact comparator only): per input the hunk contents concatenate to the input,
//! every hunk has one slice per input, Matching hunks are byte-equal on all sides,
//! no hunk is empty on every side, kinds alternate, and a second build of the same
//! diff gives the same hunks.
use arbitrary::Unstructured;
use jj_core::diff::ContentDiff;
use jj_core::diff::DiffHunk;
use jj_core::diff::DiffHunkKind;
use libfuzzer_sys::fuzz_target;

fn hunks<'a>(mode: u8, inputs: &[&'a [u8]]) -> Vec<DiffHunk<'a>> {
    let inputs = inputs.iter().copied();
    match mode % 4 {
        0 => ContentDiff::unrefined(inputs).hunks().collect(),
        1 => ContentDiff::by_line(inputs).hunks().collect(),
        2 => ContentDiff::by_word(inputs).hunks().collect(),
        _ => jj_core::diff::diff(inputs),
    }
}

fuzz_target!(|data: &[u8]| {
    let mut u = Unstructured::new(data);
    let mode = u.arbitrary::<u8>().unwrap_or(0);
    let rest = u.take_rest();
    let inputs: Vec<&[u8]> = rest.splitn(4, |b| *b == 0xff).collect();
    let result = hunks(mode, &inputs);
    for (i, input) in inputs.iter().enumerate() {
        let mut joined = Vec::with_capacity(input.len());
        for hunk in &result {
            assert_eq!(hunk.contents.len(), inputs.len(), "one slice per input");
            joined.extend_from_slice(hunk.contents[i]);
        }
        assert_eq!(&joined, input, "input {i} is not reproduced by its hunk slices");
    }
    let mut previous = None;
    for hunk in &result {
        assert!(hunk.contents.iter().any(|c| !c.is_empty()), "hunk empty on every side");
        if hunk.kind == DiffHunkKind::Matching {
            assert!(hunk.contents.iter().all(|c| *c == hunk.contents[0]), "matching hunk differs");
        }
        assert_ne!(previous, Some(hunk.kind), "two {:?} hunks in a row", hunk.kind);
        previous = Some(hunk.kind);
    }
    assert_eq!(result, hunks(mode, &inputs), "diff is not deterministic");
});
