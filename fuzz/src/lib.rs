//! Shared body of the cargo-fuzz targets. The parser drivers and input guards are
//! the harness's own files (included by path), so the targets and the C36 check
//! exercise exactly the same code; bytes are decoded by hand through
//! `arbitrary::Unstructured`.

use std::panic::AssertUnwindSafe;
use std::sync::Once;

use arbitrary::Unstructured;

#[path = "../../harness/src/gens/expr_guard.rs"]
pub mod expr_guard;
#[path = "../../harness/src/gens/expr_parse.rs"]
pub mod expr_parse;

use expr_parse::ByteSrc;
use expr_parse::Lang;

/// `ByteSrc` over `Unstructured`: sequential reads from the front, 0 / short
/// reads when exhausted (identical to `expr_parse::SliceSrc`).
pub struct USrc<'a>(pub Unstructured<'a>);

impl ByteSrc for USrc<'_> {
    fn byte(&mut self) -> u8 {
        if self.0.is_empty() {
            0
        } else {
            self.0.arbitrary::<u8>().unwrap_or(0)
        }
    }
    fn take(&mut self, n: usize) -> Vec<u8> {
        let n = n.min(self.0.len());
        self.0.bytes(n).map(|b| b.to_vec()).unwrap_or_default()
    }
    fn rest(&mut self) -> Vec<u8> {
        let n = self.0.len();
        self.0.bytes(n).map(|b| b.to_vec()).unwrap_or_default()
    }
}

fn is_known_panic(info: &std::panic::PanicHookInfo<'_>) -> bool {
    let Some(loc) = info.location() else { return false };
    let at = format!("{}:{}", loc.file(), loc.line());
    expr_parse::KNOWN_PANICS.iter().any(|(known, _)| at.ends_with(known))
}

/// Panics abort the process (libFuzzer records the input) unless their location
/// is a known finding, in which case they unwind into `run` and are ignored so
/// that the search continues.
fn install_hook() {
    static ONCE: Once = Once::new();
    ONCE.call_once(|| {
        let default_hook = std::panic::take_hook();
        std::panic::set_hook(Box::new(move |info| {
            if is_known_panic(info) {
                return;
            }
            default_hook(info);
            std::process::abort();
        }));
    });
}

/// The oracle: the call returns. Anything else kills the process.
pub fn run(lang: Lang, data: &[u8]) {
    install_hook();
    let mut src = USrc(Unstructured::new(data));
    let _ = std::panic::catch_unwind(AssertUnwindSafe(|| expr_parse::fuzz_one(lang, &mut src)));
}
