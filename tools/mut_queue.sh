#!/bin/bash
cd /verif
done_list() { cut -d' ' -f1,2 mutants/RESULTS.txt 2>/dev/null; }
run_one() { ID=$1; P=$2
  if done_list | grep -qx "$ID $(basename $P)"; then return; fi
  case "$P" in *MISSED*|*equivalent*) echo "$ID $(basename $P) skipped (documented as equivalent / outside the property)" >> mutants/RESULTS.txt; return;; esac
  OUT=$(/tmp/ws-mut/run_mutant.sh "$P" "$ID" 2>&1)
  CODE=$(echo "$OUT" | grep -o 'exit=[0-9]*' | tail -1)
  LINE=$(echo "$OUT" | grep -m1 -E 'FAILURE|INCONCLUSIVE|patch does not apply' | cut -c1-220)
  echo "$ID $(basename $P) $CODE $LINE" >> mutants/RESULTS.txt
}
# drop the stale inconclusive C45 line so it is re-run
sed -i '/^C45 1-lease-only-for-new-branches.diff exit=2/d' mutants/RESULTS.txt
sed -i '/^C40 1-update-stale-skips-snapshot.diff exit=0/d' mutants/RESULTS.txt
run_one C45 mutants/C45/1-lease-only-for-new-branches.diff
run_one C40 mutants/C40/1-update-stale-skips-snapshot.diff
# first pass: one mutant per property
for d in mutants/C*/; do ID=$(basename $d); P=$(ls $d*.diff 2>/dev/null | grep -v -E "MISSED|equivalent" | head -1); [ -n "$P" ] && run_one $ID $P; done
# second pass: everything else
for d in mutants/C*/; do ID=$(basename $d); for P in $d*.diff; do [ -f "$P" ] && run_one $ID $P; done; done
