#!/bin/bash
# usage: tools/mutant.sh <patch.diff> <ID> [<ID>...]
# Applies a patch to /repo, runs the quick checks, reverts. For sensitivity testing only.
set -u
PATCH="$(readlink -f "$1")"; shift
git -C /repo diff --quiet || { echo "/repo has uncommitted changes"; exit 2; }
git -C /repo apply "$PATCH" || { echo "patch does not apply"; exit 2; }
trap 'git -C /repo checkout -- . ; git -C /verif clean -fdq replays/ 2>/dev/null' EXIT
for ID in "$@"; do
  echo "== $ID under $(basename "$(dirname "$PATCH")")/$(basename "$PATCH")"
  VERIF_EVIDENCE_DIR=/tmp/mutant-evidence /verif/check "$ID" "${TIER:-quick}" | grep -E "VIOLATION|FAILURE|INCONCLUSIVE|KNOWN|tier=" | cut -c1-400
  echo "exit=${PIPESTATUS[0]}"
done
