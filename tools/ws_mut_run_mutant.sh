#!/bin/bash
# usage: /tmp/ws-mut/run_mutant.sh <patch.diff> <ID> [<ID>...]  — applies the patch to the private repo copy, syncs
# the harness sources from /verif, runs the quick checks there, reverts. /repo itself is never touched.
set -u
PATCH="$(readlink -f "$1")"; shift
W=/tmp/ws-mut
rsync -a --delete --exclude target /verif/harness/ $W/verif/harness/
sed -i "s#\"/repo/#\"$W/repo/#g" $W/verif/harness/Cargo.toml
rsync -a /verif/known_findings.json $W/verif/; rsync -a --delete /verif/known/ $W/verif/known/; rsync -a /verif/corpus/ $W/verif/corpus/; rsync -a /verif/check $W/verif/check
rm -rf $W/verif/replays; mkdir -p $W/verif/replays; rsync -a /verif/replays/ $W/verif/replays/
cd $W/repo && git checkout -q -- . && git apply "$PATCH" || { echo "patch does not apply: $PATCH"; exit 2; }
for ID in "$@"; do
  echo "== $ID under $PATCH"
  OUT=$(cd $W/verif && VERIF_SCRATCH_BASE=/dev/shm/ws-mut-scratch VERIF_EVIDENCE_DIR=$W/evidence ./check "$ID" "${TIER:-quick}" 2>&1); CODE=$?
  echo "$OUT" | grep -E "VIOLATION|FAILURE|INCONCLUSIVE|tier=" | cut -c1-500
  echo "exit=$CODE"
done
cd $W/repo && git checkout -q -- .
