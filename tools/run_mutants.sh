#!/bin/bash
# usage: tools/run_mutants.sh <ID> [<ID>...]   — runs every mutants/<ID>/*.diff against ./check <ID> quick in the
# private mutant workspace /tmp/ws-mut (created with `tools/agent_ws.sh mut`; /repo is not touched) and appends
# "ID patch exit=<code> <first FAILURE line>" to mutants/RESULTS.txt
cd /verif
for ID in "$@"; do
  for P in mutants/$ID/*.diff; do
    [ -f "$P" ] || continue
    case "$P" in *MISSED*|*equivalent*) echo "$ID $(basename $P) skipped (documented as equivalent / outside the property)" >> mutants/RESULTS.txt; continue;; esac
    OUT=$(/tmp/ws-mut/run_mutant.sh "$P" "$ID" 2>&1)
    CODE=$(echo "$OUT" | grep -o 'exit=[0-9]*' | tail -1)
    LINE=$(echo "$OUT" | grep -m1 -E 'FAILURE|INCONCLUSIVE|patch does not apply' | cut -c1-220)
    echo "$ID $(basename $P) $CODE $LINE" >> mutants/RESULTS.txt
  done
done
