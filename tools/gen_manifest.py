#!/usr/bin/env python3
"""Generates /verif/MANIFEST.json from tools/checks.json (one entry per implemented check)."""
import json, os, subprocess
ROOT = os.path.dirname(os.path.dirname(os.path.abspath(__file__)))
props = [json.loads(l) for l in open(os.path.join(ROOT, "properties.jsonl"))]
checks = json.load(open(os.path.join(ROOT, "tools", "checks.json")))
hooks = subprocess.run(["git", "-C", "/repo", "log", "--format=%H %s", "--grep=^verif-hooks:"],
                       capture_output=True, text=True).stdout.strip().splitlines()
engines = {
 "pure": "in-memory proptest over library functions (explicit TestRunner, fixed seed, sharded)",
 "repo": "in-process jj-lib on testutils::TestRepo with model-based generated histories",
 "wc": "testutils::TestWorkspace on the real file system with a disk model",
 "sched": "single-threaded cooperative executor owning the schedule; feature-gated yield points",
 "crash": "jj CLI subprocess with abort-at-Nth-durable-write hook; crash points enumerated per generated case",
 "cli": "jj CLI subprocess histories with in-process inspection through jj-lib",
 "fuzz": "cargo-fuzz/libFuzzer targets with the oracle inside the target",
}
m = {
 "version": 1,
 "setup_cmd": "cd /verif/harness && CARGO_NET_OFFLINE=true cargo build --bins",
 "hooks": {
   "guard": "cargo feature `verif-hooks` on jj-lib (forwarded by jj-cli); #[cfg(feature = \"verif-hooks\")]",
   "enable": "the harness crate /verif/harness depends on /repo/lib and /repo/cli by path with features = [\"verif-hooks\"]; no RUSTFLAGS",
   "baseline_off_cmd": "cd /repo && cargo nextest run --workspace --no-fail-fast --test-threads 8 --offline",
   "source_commits": [h.split()[0] for h in hooks],
   "add_only": True,
 },
 "engines": [],
 "checks": [],
 "notes": "All checks are property-based tests / fuzzers: generated inputs, histories, schedules or fault points against an explicit oracle. ./check <ID> <tier> rebuilds the harness from /repo's working tree (path dependencies) and runs `jjverif`. Exit 2 = inconclusive (build failure, watchdog), never a violation.",
 "not_applicable": [],
}
served = {}
for p in props:
    c = checks.get(p["id"])
    if not c:
        m["not_applicable"].append({"property_id": p["id"], "reason": "check not built yet (planned in DESIGN.md section 5 %s); not claimed" % p["id"]})
        continue
    if c.get("not_applicable"):
        m["not_applicable"].append({"property_id": p["id"], "reason": c["not_applicable"]})
        continue
    served.setdefault(c["engine"], []).append(p["id"])
    m["checks"].append({
      "property_id": p["id"],
      "quick_cmd": "./check %s quick" % p["id"],
      "thorough_cmd": "./check %s thorough" % p["id"],
      "evidence_file": "/verif/evidence/%s.json" % p["id"],
      "replay_cmd_template": "./check %s quick --replay {path}" % p["id"],
      "engine": c["engine"],
      "level_claimed": {"category": c.get("category", "exploration"), "text": c["text"], "design_ref": "DESIGN.md §5 %s" % p["id"]},
      "level_note": c["note"],
      "technique": c["technique"],
    })
for name, ids in served.items():
    m["engines"].append({"name": name, "path": "/verif/harness", "serves_properties": ids, "kind_free_text": engines.get(name, name)})
json.dump(m, open(os.path.join(ROOT, "MANIFEST.json"), "w"), indent=1)
print("checks:", len(m["checks"]), "not_applicable:", len(m["not_applicable"]))
