#!/usr/bin/env python3
"""Writes the committed libFuzzer seed corpora verif/corpus/{revset,fileset,template}_parse/
from the harvested literals (verif/corpus/c36/*.txt): a few dozen short inputs per
target in the byte layout of expr_parse::decode (flags, alias count, aliases,
text). Deterministic; run once after harvest_c36.py."""
import hashlib
import json
import os

HERE = os.path.dirname(os.path.abspath(__file__))
ROOT = os.path.join(HERE, "..", "corpus")


def encode(text, aliases=(), flags=0):
    out = bytearray([flags, (len(aliases) * 256 + 4) // 5])
    for decl, defn in aliases:
        d, b = decl.encode()[:63], defn.encode()[:255]
        out += bytes([len(d) * 4]) + d + bytes([len(b)]) + b
    return bytes(out + text.encode())


ALIASES = {
    "revset": [
        ([("a", "b|c")], "a & ~a"),
        ([("f(x)", "x-|x+"), ("a", "f(b)")], "f(a)::f(@)"),
        ([("f(x)", "f(x)")], "f(a)"),
        ([("a", "b"), ("b", "a")], "a"),
        ([("f()", "x"), ("f(x)", "x"), ("f(x, y)", "x|y")], "f()|f(a)|f(a,b)|f(a,b,c)"),
        ([("p:x", "description(x)")], "p:foo | p:'bar'"),
        ([("author(x)", "committer(x)")], "author(exact:\"é\")"),
    ],
    "fileset": [
        ([("a", "b|c")], "a & ~a"),
        ([("f(x)", "x|glob:'*.rs'")], "f(dir/file)"),
        ([("f(x)", "f(x)")], "f(a)"),
        ([("p:x", "glob:x")], "p:'*.c' ~ p:\"d\""),
    ],
    "template": [
        ([("a", "b ++ c")], "a ++ \"\\n\""),
        ([("f(x)", "x.short() ++ x")], "f(commit_id)"),
        ([("f(x)", "f(x)")], "f(a)"),
        ([("p:x", "label(x, self)")], "p:'k' ++ p:\"v\""),
        ([("f()", "x"), ("f(x)", "x"), ("f(x, y)", "x ++ y")], "f() ++ f(1) ++ f(a, b) ++ f(a, b, c)"),
    ],
}

for kind in ("revset", "fileset", "template"):
    seeds = [json.loads(l) for l in open(os.path.join(ROOT, "c36", kind + ".txt"), encoding="utf-8") if l.strip()]
    short = [s for s in seeds if len(s.encode()) <= 48]
    step = max(1, len(short) // 40)
    picked = short[::step][:40]
    out_dir = os.path.join(ROOT, kind + "_parse")
    os.makedirs(out_dir, exist_ok=True)
    for f in os.listdir(out_dir):
        os.remove(os.path.join(out_dir, f))
    blobs = [encode(s, flags=i % 8) for i, s in enumerate(picked)]
    blobs += [encode(text, aliases, flags=1) for aliases, text in ALIASES[kind]]
    for b in blobs:
        with open(os.path.join(out_dir, hashlib.sha1(b).hexdigest()), "wb") as f:
            f.write(b)
    print(kind, len(blobs), "seeds")
