#!/usr/bin/env python3
"""usage: merge_agent.py <ws-name> <ID> [<ID>...] [--extra relpath ...]
Copies an implementation agent's deliverables from /tmp/ws-<name>/verif into /verif."""
import json, os, re, shutil, sys
name = sys.argv[1]; rest = sys.argv[2:]
extra = []
if '--extra' in rest:
    i = rest.index('--extra'); extra = rest[i+1:]; rest = rest[:i]
ids = rest
W = f'/tmp/ws-{name}/verif'
def cp(rel, dstrel=None):
    src = os.path.join(W, rel); dst = os.path.join('/verif', dstrel or rel)
    os.makedirs(os.path.dirname(dst), exist_ok=True)
    shutil.copy2(src, dst); print('copied', rel, '->', dstrel or rel)
for i in ids:
    low = i.lower()
    cp(f'harness/src/props/{low}.rs')
    for d in ('replays', 'known'):
        p = os.path.join(W, d, i)
        if os.path.isdir(p):
            for f in sorted(os.listdir(p)):
                if f.endswith('.json') and (f.startswith('known') or f.startswith('f') or d == 'known' or not re.fullmatch(r'[0-9a-f]{16}\.json', f)):
                    cp(f'{d}/{i}/{f}', f'known/{i}/{f}' if ('known' in f or d == 'known') else f'replays/{i}/{f}')
    p = os.path.join(W, 'mutants', i)
    if os.path.isdir(p):
        for f in sorted(os.listdir(p)):
            cp(f'mutants/{i}/{f}')
for rel in extra:
    cp(rel)
# known findings
kf = os.path.join(W, 'known_findings.json')
if os.path.exists(kf):
    mine_path = '/verif/known_findings.json'
    mine = json.load(open(mine_path)) if os.path.exists(mine_path) else {"findings": []}
    for f in json.load(open(kf))['findings']:
        if f['property'] in ids and not any(m['signature'] == f['signature'] for m in mine['findings']):
            mine['findings'].append(f); print('known finding added:', f['signature'])
    json.dump(mine, open(mine_path, 'w'), indent=1)
# registry
modp = '/verif/harness/src/props/mod.rs'
s = open(modp).read()
for i in ids:
    low = i.lower()
    if f'pub mod {low};' not in s:
        s = s.replace('\npub type RunFn', f'pub mod {low};\n\npub type RunFn', 1) if False else s
        # insert keeping sorted order
        mods = sorted(set(re.findall(r'pub mod (c\d+);', s)) | {low})
        s = re.sub(r'(pub mod c\d+;\n)+', ''.join(f'pub mod {m};\n' for m in mods), s, count=1)
        regs = sorted(set(re.findall(r'\("(C\d+)", c\d+::run\),', s)) | {i})
        s = re.sub(r'(    \("C\d+", c\d+::run\),\n)+', ''.join(f'    ("{r}", {r.lower()}::run),\n' for r in regs), s, count=1)
open(modp, 'w').write(s)
print('registry updated')
