#!/bin/bash
# usage: tools/confirm_seed_suite.sh <ID>  — runs the repository's whole test suite inside the seeding agent's worktree
# /tmp/seed-<ID> (change applied) and reports failing tests that are NOT in the baseline's always-fail list.
ID="$1"; W=/tmp/seed-$ID
cd $W || exit 2
export CARGO_TARGET_DIR=$W/target CARGO_NET_OFFLINE=true
cargo nextest run --workspace --no-fail-fast --test-threads 8 --offline > $W/SEED/suite.log 2>&1
grep -E "^\s+(FAIL|TIMEOUT|SIGABRT|SIGSEGV)" $W/SEED/suite.log | sed -E 's/^\s+\S+\s+\[[^]]*\]\s+//' | awk '{print $1"::"$2}' | sed 's/::tests::/::tests::/' | sort -u > $W/SEED/suite_failed.txt
python3 - "$W" <<'PY'
import sys,re
w=sys.argv[1]
always=set(l.strip() for l in open('/tmp/baseline_always_fail.txt'))
log=open(w+'/SEED/suite.log').read()
failed=set()
for m in re.finditer(r'^\s+(FAIL|TIMEOUT|SIGABRT|SIGSEGV|LEAK-FAIL)\s+\[[^\]]*\]\s+(?:\([^)]*\)\s+)?(\S+)\s+(\S+)', log, re.M):
    failed.add(m.group(2)+'::'+m.group(3))
extra=sorted(f for f in failed if f not in always)
summ=re.findall(r'Summary.*', log)
print('summary:', summ[-1] if summ else 'n/a')
print('failed:', len(failed), 'not in always-fail:', len(extra))
for e in extra[:20]: print('  UNEXPECTED FAIL', e)
PY
