#!/bin/bash
# usage: tools/store_seed.sh <ID>  — copies a seeding agent's deliverables from /tmp/seed-<ID>/SEED into /verif/seeded/<ID>/
ID="$1"; S=/tmp/seed-$ID/SEED; D=/verif/seeded/$ID
mkdir -p $D
for f in patch.diff demo.diff meta.json demo_output_with_change.txt demo_output_without_change.txt; do [ -f $S/$f ] && cp $S/$f $D/; done
# other demo artefacts (scripts/programs), but not the big suite logs
find $S -maxdepth 1 -type f -size -200k ! -name '*.log' ! -name 'failed_names.txt' -exec cp -n {} $D/ \;
for f in $D/demo_output_*.txt; do [ -f "$f" ] && { head -c 20000 "$f" > "$f.tmp"; mv "$f.tmp" "$f"; }; done
ls $D
