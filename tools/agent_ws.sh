#!/bin/bash
# usage: tools/agent_ws.sh <name>   -> creates /tmp/ws-<name>/{repo,verif}: a private copy of the
# jj sources and of the harness (with build output) whose path dependencies point at the private copy.
set -eu
W=/tmp/ws-$1
rm -rf "$W"; mkdir -p "$W"
rsync -a --exclude target --exclude .git /repo/ "$W/repo/"
( cd "$W/repo" && git init -q && git add -A && git -c user.email=a@b -c user.name=a commit -qm base )
rsync -a --exclude .git --exclude scratch --exclude 'build.*.log' /verif/ "$W/verif/"
sed -i "s#/repo/#$W/repo/#g" "$W/verif/harness/Cargo.toml"
echo "$W"
