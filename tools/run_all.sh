#!/bin/bash
# usage: tools/run_all.sh [tier] [seed]  — runs every check registered in MANIFEST.json once; prints a table.
cd /verif
TIER="${1:-quick}"; SEED="${2:-0}"
IDS=$(python3 -c "import json;print(' '.join(c['property_id'] for c in json.load(open('MANIFEST.json'))['checks']))")
for ID in $IDS; do
  START=$(date +%s)
  OUT=$(VERIF_SEED=$SEED ./check "$ID" "$TIER" 2>&1); CODE=$?
  END=$(date +%s)
  SUMMARY=$(echo "$OUT" | grep -E "^$ID tier=" | tail -1)
  VIO=$(echo "$OUT" | grep -c '^VIOLATION')
  KNOWN=$(echo "$OUT" | grep -c '^KNOWN-FINDING')
  echo "$ID exit=$CODE wall=$((END-START))s violations=$VIO known_lines=$KNOWN :: $SUMMARY"
done
