#!/usr/bin/env python3
"""Harvests revset / fileset / template expression literals from the jj tree.

usage: harvest_c36.py [REPO_ROOT] [OUT_DIR]
  REPO_ROOT default /repo, OUT_DIR default <this script>/../corpus/c36

Output: OUT_DIR/{revset,fileset,template}.txt, one JSON string per line
(sorted, de-duplicated), used by the C36 check as mutation seeds and by
tools/fuzz.sh as libFuzzer seed inputs. The literals need not be valid: they
are only starting points for mutation. Run once; the result is committed.
"""
import json
import os
import re
import sys
import tomllib

REPO = sys.argv[1] if len(sys.argv) > 1 else "/repo"
OUT = (
    sys.argv[2]
    if len(sys.argv) > 2
    else os.path.join(os.path.dirname(os.path.abspath(__file__)), "..", "corpus", "c36")
)
MAX_LEN = 600


def rust_strings(src):
    """Yields (offset, value) for every string literal in Rust source."""
    i, n = 0, len(src)
    while i < n:
        c = src[i]
        if src.startswith("//", i):
            j = src.find("\n", i)
            i = n if j < 0 else j
            continue
        if src.startswith("/*", i):
            j = src.find("*/", i + 2)
            i = n if j < 0 else j + 2
            continue
        if c == "'":
            # char literal or lifetime
            m = re.match(r"'(\\.[^']*|[^'\\])'", src[i:])
            i += m.end() if m else 1
            continue
        m = re.match(r'b?r(#*)"', src[i:]) if c in "br" else None
        if m and (i == 0 or not (src[i - 1].isalnum() or src[i - 1] == "_")):
            hashes = m.group(1)
            start = i + m.end()
            end = src.find('"' + hashes, start)
            if end < 0:
                return
            yield i, src[start:end]
            i = end + 1 + len(hashes)
            continue
        if c == '"':
            j = i + 1
            out = []
            while j < n and src[j] != '"':
                if src[j] == "\\":
                    e = src[j + 1]
                    if e == "n":
                        out.append("\n")
                    elif e == "t":
                        out.append("\t")
                    elif e == "r":
                        out.append("\r")
                    elif e == "0":
                        out.append("\0")
                    elif e in "\\\"'":
                        out.append(e)
                    elif e == "x":
                        out.append(chr(int(src[j + 2 : j + 4], 16)))
                        j += 2
                    elif e == "u":
                        k = src.find("}", j)
                        out.append(chr(int(src[j + 3 : k], 16)))
                        j = k - 1
                    elif e == "\n":
                        j += 2
                        while j < n and src[j] in " \t\r\n":
                            j += 1
                        continue
                    else:
                        out.append(e)
                    j += 2
                else:
                    out.append(src[j])
                    j += 1
            yield i, "".join(out)
            i = j + 1
            continue
        i += 1


CALL_RE = re.compile(
    r"(?:\b|\.)(parse\w*|render_ok|render_plain|render_err\w*|parse_err\w*|resolve\w*|optimize\w*|"
    r"evaluate\w*|check\w*|expand\w*|build\w*|with_aliases|insert|add_alias\w*|add_keyword\w*)"
    r"\(\s*(?:\[\s*)?(?:\(\s*)?(?:(?:&mut\s+)?[\w.&]+(?:\(\))?\s*,\s*){0,2}$"
)
PAIR_RE = re.compile(r'"\s*,\s*$')  # second element of a ("decl", "defn") tuple
FLAG_RE = {
    "revset": re.compile(r'"(?:-r|--revisions?|--from|--to|-f|-t|-s|--source|-d|--destination|-b|--branch|--into|-A|-B|--insert-after|--insert-before|--onto|-o|--range)"\s*,\s*$'),
    "template": re.compile(r'"(?:-T|--template)"\s*,\s*$'),
}


def harvest_rust(path, kinds, out):
    """kinds: which languages a call-argument literal of this file belongs to."""
    try:
        src = open(path, encoding="utf-8").read()
    except OSError:
        return
    prev_end = 0
    prev_taken = False
    for off, val in rust_strings(src):
        before = src[max(0, off - 200) : off]
        taken = False
        if CALL_RE.search(before) or (prev_taken and PAIR_RE.search(before) and off - prev_end < 12):
            for k in kinds:
                out[k].add(val)
            taken = True
        for k, rx in FLAG_RE.items():
            if rx.search(before):
                out[k].add(val)
        for prefix, k in (("-r=", "revset"), ("-r", "revset"), ("-T=", "template"), ("-T", "template"),
                          ("--template=", "template"), ("--revisions=", "revset")):
            if val.startswith(prefix) and len(val) > len(prefix) + 1 and not val.startswith("--r"):
                if prefix in ("-r", "-T") and val[2] in "=-":
                    continue
                out[k].add(val[len(prefix):])
                break
        prev_taken = taken
        prev_end = off + len(val) + 2


def harvest_md(path, kind, out):
    try:
        text = open(path, encoding="utf-8").read()
    except OSError:
        return
    # fenced blocks: keep each line and the whole block
    for m in re.finditer(r"```[^\n]*\n(.*?)```", text, re.S):
        block = m.group(1).strip("\n")
        out[kind].add(block)
        for line in block.split("\n"):
            line = line.strip()
            if line:
                out[kind].add(line)
                for q in re.finditer(r"""(?:-r|-T|--template|--revisions)[ =]*(?:'([^']*)'|"([^"]*)")""", line):
                    k = "template" if q.group(0).startswith(("-T", "--t")) else "revset"
                    out[k].add(q.group(1) if q.group(1) is not None else q.group(2))
    text = re.sub(r"```.*?```", "", text, flags=re.S)
    for m in re.finditer(r"``([^`\n].*?)``|`([^`\n]+)`", text):
        out[kind].add((m.group(1) or m.group(2)).strip())


def harvest_toml(path, tables, out):
    try:
        data = tomllib.load(open(path, "rb"))
    except (OSError, tomllib.TOMLDecodeError):
        return
    for table, (kind, with_keys) in tables.items():
        t = data.get(table, {})
        if not isinstance(t, dict):
            continue
        for key, value in t.items():
            if isinstance(value, str):
                out[kind].add(value)
                if with_keys:
                    out[kind].add(key)


def main():
    out = {"revset": set(), "fileset": set(), "template": set()}
    lib, cli = os.path.join(REPO, "lib"), os.path.join(REPO, "cli")
    harvest_rust(f"{lib}/src/revset_parser.rs", ["revset"], out)
    harvest_rust(f"{lib}/src/revset.rs", ["revset"], out)
    harvest_rust(f"{lib}/tests/test_revset.rs", ["revset"], out)
    harvest_rust(f"{lib}/src/fileset_parser.rs", ["fileset"], out)
    harvest_rust(f"{lib}/src/fileset.rs", ["fileset"], out)
    harvest_rust(f"{cli}/src/template_parser.rs", ["template"], out)
    harvest_rust(f"{cli}/src/template_builder.rs", ["template"], out)
    harvest_rust(f"{cli}/src/commit_templater.rs", ["template"], out)
    harvest_rust(f"{cli}/src/operation_templater.rs", ["template"], out)
    tests = os.path.join(cli, "tests")
    for name in sorted(os.listdir(tests)):
        if name.endswith(".rs"):
            kinds = []
            if "fileset" in name:
                kinds = ["fileset"]
            elif "revset" in name:
                kinds = ["revset"]
            elif "templater" in name or "template" in name:
                kinds = ["template"]
            harvest_rust(os.path.join(tests, name), kinds, out)
    harvest_md(f"{REPO}/docs/revsets.md", "revset", out)
    harvest_md(f"{REPO}/docs/filesets.md", "fileset", out)
    harvest_md(f"{REPO}/docs/templates.md", "template", out)
    harvest_toml(
        f"{cli}/src/config/revsets.toml",
        {"revsets": ("revset", False), "revset-aliases": ("revset", True)},
        out,
    )
    harvest_toml(
        f"{cli}/src/config/templates.toml",
        {"templates": ("template", False), "template-aliases": ("template", True)},
        out,
    )
    harvest_toml(f"{REPO}/docs/revsets.toml", {"revsets": ("revset", False), "revset-aliases": ("revset", True)}, out)
    os.makedirs(OUT, exist_ok=True)
    for kind, values in out.items():
        keep = sorted(v for v in values if 0 < len(v) <= MAX_LEN and "\0" not in v)
        with open(os.path.join(OUT, f"{kind}.txt"), "w", encoding="utf-8") as f:
            for v in keep:
                f.write(json.dumps(v, ensure_ascii=False) + "\n")
        print(f"{kind}: {len(keep)} literals")


if __name__ == "__main__":
    main()
