#!/bin/bash
# usage: tools/fuzz.sh <target> [runs]
# Builds one cargo-fuzz target (offline, ASan, debug assertions on) and runs it
# for a fixed number of executions on a fresh copy of the committed seed corpus
# under verif/scratch. Never time-based.
# exit 0 = no crash; 1 = crash (VIOLATION line with the saved artifact);
# 2 = inconclusive (build failure, libFuzzer timeout / out-of-memory artifact).
set -u
TARGET="${1:?fuzz target (revset_parse|fileset_parse|template_parse|...)}"
RUNS="${2:-20000}"
HERE="$(cd "$(dirname "$0")/.." && pwd)"
case "$TARGET" in
  revset_parse|fileset_parse|template_parse) PROP=C36 ;;
  diff_partition) PROP=C03 ;;
  conflict_roundtrip) PROP=C05 ;;
  repo_path) PROP=C32 ;;
  *) echo "unknown fuzz target $TARGET"; exit 2 ;;
esac
export CARGO_NET_OFFLINE=true
FUZZ="$HERE/fuzz"
mkdir -p "$HERE/scratch"
WORK="$(mktemp -d "$HERE/scratch/fuzz-$TARGET.XXXXXX")" || exit 2
trap 'rm -rf "$WORK"' EXIT
if ! (cd "$FUZZ" && cargo +nightly fuzz build --fuzz-dir "$FUZZ" "$TARGET") >"$WORK/build.log" 2>&1; then
  echo "INCONCLUSIVE property=$PROP fuzz target $TARGET does not build:"; tail -30 "$WORK/build.log"; exit 2
fi
mkdir -p "$WORK/corpus" "$FUZZ/artifacts/$TARGET"
if [ -d "$HERE/corpus/$TARGET" ]; then cp -r "$HERE/corpus/$TARGET/." "$WORK/corpus/"; fi
ART="$WORK/artifacts"; mkdir -p "$ART"
# -max_len: deep chains are the job of the C36 deep battery (8 MiB stack, no
# sanitizer); long inputs under ASan would only measure ASan's frame sizes.
(cd "$FUZZ" && cargo +nightly fuzz run --fuzz-dir "$FUZZ" "$TARGET" "$WORK/corpus" -- \
    -runs="$RUNS" -max_len=512 -timeout=120 -rss_limit_mb=4096 -seed="${VERIF_SEED:-1}" \
    -artifact_prefix="$ART/" -print_final_stats=1) >"$WORK/run.log" 2>&1
code=$?
grep -E "^stat::|^Done " "$WORK/run.log" | sed "s/^/$TARGET: /"
shopt -s nullglob
crashes=("$ART"/crash-* "$ART"/leak-*)
soft=("$ART"/timeout-* "$ART"/oom-* "$ART"/slow-unit-*)
if [ ${#crashes[@]} -gt 0 ]; then
  for f in "${crashes[@]}"; do
    dest="$FUZZ/artifacts/$TARGET/$(basename "$f")"
    cp "$f" "$dest"
    grep -E "panicked at|ERROR: |SUMMARY: " "$WORK/run.log" | head -5
    echo "VIOLATION property=$PROP replay=$dest"
  done
  exit 1
fi
if [ ${#soft[@]} -gt 0 ]; then
  for f in "${soft[@]}"; do
    dest="$FUZZ/artifacts/$TARGET/$(basename "$f")"; cp "$f" "$dest"
    echo "INCONCLUSIVE property=$PROP fuzz target $TARGET: $(basename "$f") saved as $dest"
  done
  exit 2
fi
if [ $code -ne 0 ]; then
  echo "INCONCLUSIVE property=$PROP fuzz target $TARGET exited $code without an artifact:"; tail -15 "$WORK/run.log"; exit 2
fi
exit 0
